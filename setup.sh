#!/bin/sh
# Offline setup: nothing is downloaded or built; verify the tools and parse every specification module.
set -e
cd "$(dirname "$0")"
command -v java >/dev/null
test -f /opt/veriftools/tla/tla2tools.jar
command -v apalache-mc >/dev/null   # stage A of C17 (spec/Apa_Sweep.tla)
/venv/bin/python -c "import sys; sys.path.insert(0,'/repo/src'); import peptacular, regex"
mkdir -p evidence .work
fail=0
for f in spec/*.tla; do
  if ! (cd spec && java -cp /opt/veriftools/tla/tla2tools.jar:/opt/veriftools/tla/CommunityModules-deps.jar tla2sany.SANY "$(basename "$f")" >/tmp/sany.$$ 2>&1); then
    fail=1
  fi
  if grep -qE "Fatal|\*\*\* Errors|Could not" /tmp/sany.$$; then echo "SANY failed on $f"; cat /tmp/sany.$$; fail=1; fi
done
rm -f /tmp/sany.$$
exit $fail
