#!/usr/bin/env python3
"""tools/mutant_iso.py <PROP> <mutant_dir> [<check props...>]

Like tools/mutant.py, but /repo and /verif are never touched while checking: the seeded change is applied in its own scratch
worktree of /repo, the checks run from a scratch copy of /verif whose '/repo/' paths point at that worktree, and both are
removed afterwards.  Several of these can therefore run side by side (and evidence/ of /verif is left alone).
The result is stored under /verif/seeded/<PROP>-<name>/ exactly as tools/mutant.py stores it."""
import json, os, shutil, subprocess, sys, time

def sh(cmd, cwd=None, env=None, timeout=5400):
    e = dict(os.environ); e.update(env or {})
    p = subprocess.run(cmd, shell=True, cwd=cwd, env=e, capture_output=True, text=True, timeout=timeout)
    return p.returncode, p.stdout + p.stderr

def main():
    prop, mdir = sys.argv[1], sys.argv[2].rstrip('/')
    checks = sys.argv[3:] or [prop]
    base = os.path.basename(mdir)
    dst = f"/verif/seeded/{base}" if base.startswith(prop + "-") else f"/verif/seeded/{prop}-{base}"
    checks_only = bool(os.environ.get("MUTANT_CHECKS_ONLY"))    # a change confirmed earlier: only run the checks again
    os.makedirs(dst, exist_ok=True)
    if os.path.abspath(mdir) != os.path.abspath(dst):
        for f in ("patch.diff", "demo.py", "meta.json"):
            shutil.copy(os.path.join(mdir, f), os.path.join(dst, f))
    meta = json.load(open(os.path.join(dst, "meta.json")))
    tag = f"{prop}_{os.getpid()}"
    wt, vc = f"/tmp/iso_repo_{tag}", f"/tmp/iso_verif_{tag}"
    sh(f"git -C /repo worktree add -q --detach {wt} HEAD")
    env = {"PYTHONPATH": f"{wt}/src", "PYTHONDONTWRITEBYTECODE": "1"}
    ran, results = {}, {}
    try:
        if checks_only and meta.get("confirmation", {}).get("confirmed"):
            ran = dict(meta["confirmation"])
            rca, out = sh(f"git apply {dst}/patch.diff", cwd=wt)
            ran["applies"] = rca == 0
            ran["confirmed"] = bool(ran["confirmed"] and rca == 0)
            rca = 1                      # skip the confirmation block below
        else:
            rc0, _ = sh(f"/venv/bin/python {dst}/demo.py", cwd=wt, env=env)
            rca, out = sh(f"git apply {dst}/patch.diff", cwd=wt)
            ran["applies"] = rca == 0
        if rca == 0:
            rct, outt = sh("/venv/bin/python -m pytest -q -p no:cacheprovider", cwd=wt, env=env)
            rc1, _ = sh(f"/venv/bin/python {dst}/demo.py", cwd=wt, env=env)
            ran.update(tests_pass_with_change=(rct == 0), tests_tail=outt.strip().splitlines()[-1] if outt.strip() else "",
                       demo_exit_unchanged=rc0, demo_exit_changed=rc1)
        confirmed = bool(ran.get("applies") and ran.get("tests_pass_with_change") and ran.get("demo_exit_unchanged") == 0
                         and ran.get("demo_exit_changed") != 0)
        ran["confirmed"] = confirmed
        ran["isolated"] = "change applied in a scratch worktree; checks run from a scratch copy of /verif pointed at it"
        if confirmed:
            sh(f"rsync -a --exclude .git --exclude .work --exclude replays --exclude seeded --exclude evidence --exclude extras "
               f"--exclude __pycache__ /verif/ {vc}/ && mkdir -p {vc}/evidence {vc}/extras {vc}/replays")
            sh(f"grep -rl '/repo/' {vc}/check {vc}/harness | xargs sed -i 's#/repo/#{wt}/#g'")
            for c in checks:
                t0 = time.time()
                rc, out = sh(f"./check {c} --tier quick", cwd=vc, env={"PYTHONPATH": ""})
                viol = [l[:300].replace(vc, "/verif") for l in out.splitlines() if l.startswith("VIOLATION")]
                results[c] = {"exit": rc, "violation_lines": len(viol), "first": viol[:2], "wall_s": round(time.time() - t0, 1)}
                if rc not in (0, 1):
                    results[c]["tail"] = out[-1500:]
    finally:
        sh(f"git -C /repo worktree remove --force {wt}")
        shutil.rmtree(vc, ignore_errors=True)
    meta["confirmation"] = ran
    meta["checks_run_with_change_applied"] = results
    meta["caught_by"] = [c for c, r in results.items() if r["exit"] == 1]
    if not os.environ.get("MUTANT_NO_WRITE"):      # e.g. a run under another VERIF_SEED: report only
        json.dump(meta, open(os.path.join(dst, "meta.json"), "w"), indent=1)
    print(prop, os.path.basename(mdir), "confirmed" if ran.get("confirmed") else "NOT CONFIRMED", "caught_by", meta["caught_by"],
          {c: (r["exit"], r["wall_s"]) for c, r in results.items()})
    for c, r in results.items():
        print("  ", c, r["exit"], r["first"][:1], r.get("tail", "")[-400:])

main()
