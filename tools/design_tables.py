#!/usr/bin/env python3
"""Regenerate the data-driven tables of DESIGN.md (between <!-- BEGIN x --> / <!-- END x --> markers) from
known_findings.json and seeded/*/meta.json."""
import glob, json, os, re
V = os.path.dirname(os.path.dirname(os.path.abspath(__file__)))
d = json.load(open(f"{V}/known_findings.json"))["findings"]


def esc(t):
    return t.replace("|", "\\|").replace("\n", " ")

fixes = ["| property | commit | what failed (first witness found by the check) |", "|---|---|---|"]
seen = set()
for f in d:
    if f["status"] == "fixed":
        fixes.append(f"| {f['property']} | `{f.get('commit', '')}` | {esc(f['what'])} |")
opens = ["| finding | what the defective code returns (exact clause: `Dev_<name>` in the trace spec) |", "|---|---|"]
for f in d:
    if f["status"] == "open":
        opens.append(f"| `{f['deviation']}` | {esc(f['what'])} |")
seeded = ["| change | what (the sub-agent's own description) | caught by |", "|---|---|---|"]
n = 0
for m in sorted(glob.glob(f"{V}/seeded/*/meta.json")):
    j = json.load(open(m))
    name = os.path.basename(os.path.dirname(m))
    if not j.get("confirmation", {}).get("confirmed"):
        continue
    n += 1
    seeded.append(f"| {name} | {esc(j['what'])[:230]} | {', '.join(j.get('caught_by', [])) or '**missed**'} |")
tables = {"fixes": "\n".join(fixes), "open": "\n".join(opens), "seeded": "\n".join(seeded)}
s = open(f"{V}/DESIGN.md").read()
for k, t in tables.items():
    pat = re.compile(rf"(<!-- BEGIN {k} -->\n).*?(<!-- END {k} -->)", re.S)
    assert pat.search(s), k
    s = pat.sub(lambda m_: m_.group(1) + t + "\n" + m_.group(2), s)
open(f"{V}/DESIGN.md", "w").write(s)
print("fixed:", len(fixes) - 2, "open:", len(opens) - 2, "seeded:", n)
