#!/bin/bash
# tools/bind_iso.sh <CHECK> <file under src/peptacular> <sed expression>
# Binding demonstration without touching /repo: apply a one-line change in a scratch worktree, run one check from a scratch
# copy of /verif pointed at it, print the verdict line and the number of VIOLATION lines, remove both.
c=$1; f=$2; e=$3; tag=$$; wt=/tmp/bind_repo_$tag; vc=/tmp/bind_verif_$tag
git -C /repo worktree add -q --detach $wt HEAD
sed -i "$e" $wt/src/peptacular/$f
git -C $wt diff --stat | tail -1
rsync -a --exclude .git --exclude .work --exclude replays --exclude seeded --exclude evidence --exclude extras --exclude __pycache__ /verif/ $vc/
mkdir -p $vc/evidence $vc/extras $vc/replays
grep -rl '/repo/' $vc/check $vc/harness | xargs sed -i "s#/repo/#$wt/#g"
(cd $vc && PYTHONPATH= ./check $c --tier quick 2>&1 | grep -c '^VIOLATION'; cd $vc && PYTHONPATH= ./check $c --tier quick 2>&1 | tail -1 | cut -c1-200)
git -C /repo worktree remove --force $wt; rm -rf $vc
