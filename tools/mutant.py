#!/usr/bin/env python3
"""tools/mutant.py <PROP> <mutant_dir> [<check props...>]

Confirm a seeded change (patch.diff + demo.py + meta.json) in a scratch worktree, then apply it to /repo, run the
quick checks, undo it, and store everything under /verif/seeded/<PROP>-<name>/ with what was run and what caught it."""
import json, os, shutil, subprocess, sys, time

def sh(cmd, cwd=None, env=None, timeout=3600):
    e = dict(os.environ); e.update(env or {})
    p = subprocess.run(cmd, shell=True, cwd=cwd, env=e, capture_output=True, text=True, timeout=timeout)
    return p.returncode, p.stdout + p.stderr

def main():
    prop, mdir = sys.argv[1], sys.argv[2].rstrip('/')
    checks = sys.argv[3:] or [prop]
    name = f"{prop}-{os.path.basename(os.path.dirname(mdir)).replace('wt_','') if False else ''}{os.path.basename(mdir)}".replace('--','-')
    dst = mdir if os.path.dirname(os.path.abspath(mdir)) == "/verif/seeded" else f"/verif/seeded/{prop}-{os.path.basename(mdir)}"
    if os.path.abspath(mdir) != os.path.abspath(dst):
        os.makedirs(dst, exist_ok=True)
        for f in ("patch.diff", "demo.py", "meta.json"):
            shutil.copy(os.path.join(mdir, f), os.path.join(dst, f))
    meta = json.load(open(os.path.join(dst, "meta.json")))
    wt = f"/tmp/confirm_{prop}_{os.getpid()}"
    sh(f"git -C /repo worktree add -q --detach {wt} HEAD")
    env = {"PYTHONPATH": f"{wt}/src", "PYTHONDONTWRITEBYTECODE": "1"}
    ran = {}
    try:
        rc0, _ = sh(f"/venv/bin/python {dst}/demo.py", cwd=wt, env=env)
        rca, out = sh(f"git apply {dst}/patch.diff", cwd=wt)
        if rca != 0:
            print("PATCH DOES NOT APPLY", out); ran["applies"] = False
        else:
            ran["applies"] = True
            rct, outt = sh("/venv/bin/python -m pytest -q -p no:cacheprovider", cwd=wt, env=env)
            rc1, outd = sh(f"/venv/bin/python {dst}/demo.py", cwd=wt, env=env)
            ran.update(tests_pass_with_change=(rct == 0), tests_tail=outt.strip().splitlines()[-1] if outt.strip() else "",
                       demo_exit_unchanged=rc0, demo_exit_changed=rc1)
    finally:
        sh(f"git -C /repo worktree remove --force {wt}")
    confirmed = ran.get("applies") and ran.get("tests_pass_with_change") and ran.get("demo_exit_unchanged") == 0 and ran.get("demo_exit_changed") != 0
    ran["confirmed"] = bool(confirmed)
    results = {}
    if confirmed:
        st, _ = sh("git -C /repo status --porcelain")
        rca, out = sh(f"git -C /repo apply {dst}/patch.diff")
        try:
            for c in checks:
                t0 = time.time()
                rc, out = sh(f"./check {c} --tier quick", cwd="/verif")
                viol = [l[:300] for l in out.splitlines() if l.startswith("VIOLATION")]
                results[c] = {"exit": rc, "violation_lines": len(viol), "first": viol[:2], "wall_s": round(time.time() - t0, 1)}
        finally:
            sh("git -C /repo checkout -- .")
    meta["confirmation"] = ran
    meta["checks_run_with_change_applied"] = results
    meta["caught_by"] = [c for c, r in results.items() if r["exit"] == 1]
    json.dump(meta, open(os.path.join(dst, "meta.json"), "w"), indent=1)
    print(prop, os.path.basename(mdir), "confirmed" if confirmed else "NOT CONFIRMED", ran, "caught_by", meta["caught_by"])
    for c, r in results.items():
        print("  ", c, r["exit"], r["first"][:1])

main()
