#!/bin/bash
# tools/sweep_iso.sh [-P n] C07 C08 ...   re-run every seeded change of the given properties with tools/mutant_iso.py
# (isolated: /repo and /verif/evidence untouched), n at a time; prints one line per change, misses marked MISSED.
par=6; if [ "$1" = "-P" ]; then par=$2; shift 2; fi
for p in "$@"; do ls -d /verif/seeded/$p-*; done | xargs -P $par -I{} bash -c 'd={}; p=$(basename $d | cut -d- -f1); /venv/bin/python /verif/tools/mutant_iso.py $p $d 2>&1 | head -1 | awk "{print} /caught_by \\[\\]/ {print \"MISSED \" \$1 \" \" \$2}"'
