#!/venv/bin/python
"""Print recorded violation replay files in readable form: tools/show.py replays/C03_*.json"""
import json, sys
sys.path.insert(0, '/verif')
from harness import anngen
def fx(v): return v[0] + v[1] * 1e-9 if isinstance(v, list) and len(v) == 2 else v
for f in sys.argv[1:]:
    d = json.load(open(f)); ev = d['event']
    print('==', f.split('/')[-1], d['clause'])
    out = {}
    for k, v in ev.items():
        if k in ('A', 'T', 'Q', 'A0', 'B') and isinstance(v, dict) and 'seq' in v:
            out[k] = anngen.render(v)
        elif k == 'comp':
            out[k] = {e['sym']: (-1 if e['neg'] else 1) * (e['c0'] + e['c1'] * 1e-4 + e['c2'] * 1e-8) for e in v}
        elif isinstance(v, list) and len(v) == 2 and all(isinstance(x, int) for x in v):
            out[k] = round(fx(v), 9)
        else:
            out[k] = v
    print('  ', json.dumps(out, default=str)[:900])
