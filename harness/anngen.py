"""Seeded generator of ABSTRACT annotations (the JSON form of spec/Annotation.tla) and the two input renderers:

 * render(A, plus, zplus): ProForma text of A.  NOT trusted: every trace spec recomputes ProFormaText!WriteV(A, ..)
   and rejects the event (machinery error clause "text_not_spec_text") if the text differs.
 * build(pp, A): the real ProFormaAnnotation built with the dataclass constructor from lists (independent of parse).

No expectations are computed here.
"""
from __future__ import annotations

import random

RES22 = "ACDEFGHIKLMNPQRSTVWYUO"
RES26 = "ACDEFGHIKLMNPQRSTVWYUOBZXJ"

NUMS = [("i", "1"), ("i", "15"), ("i", "-3"), ("f", "1.5"), ("f", "-0.984016"), ("f", "15.994915"), ("f", "1.0"),
        ("f", "79.966331"), ("i", "42"), ("f", "-18.010565"), ("f", "0.5"), ("i", "100")]
NAMES = ["Oxidation", "Phospho", "Acetyl", "Carbamidomethyl", "Methyl", "Deamidated", "Amidated", "Dehydrated",
         "U:Oxidation", "UNIMOD:35", "U:35", "Unimod:21", "MOD:00046", "M:O-phospho-L-serine", "O-phospho-L-serine",
         "XLMOD:01000", "X:DSS", "Label:13C(6)", "Label:13C(6)15N(2)", "U:Label:13C(6)15N(4)", "Hex", "HexNAc",
         "Cation:Na", "Oxidation|Hydroxylation", "R:Methionine sulfone", "RESID:AA0581", "G:G59626AS", "GNO:G59626AS",
         # vocabulary names with characters that mean something elsewhere in the notation: > , [ ] ( ) ' / + . &
         "Met->Hse", "U:Ala->Ser", "(2S,3R)-3-hydroxyasparagine", "Xlink:DTSSP[88]", "1'-phospho-L-histidine",
         "DiART6plex116/119", "Myristoyl+Delta:H(-4)", "ICAT-G:2H(8)",
         # names that some number readers take for numbers
         "nan", "inf", "Infinity", "1_000", "NaN"]
FORMULAS = ["Formula:C2H4", "Formula:[13C2]H4", "Formula:C-1H2O", "Formula:[13C2][15N1]H6", "Formula:HPO3",
            "Formula:C12H20O2", "Formula:[2H3]C", "Formula:C6H10O5",
            "Formula:C2[13C1]C3H4", "Formula:[13C2]H3[13C1]O", "Formula:H2[15N]H"]     # an element written in two segments
GLYCANS = ["Glycan:Hex", "Glycan:HexNAc2Hex", "Glycan:HexNAc2Hex3Fuc", "Glycan:Hex5HexNAc4NeuAc2", "Glycan:dHex",
           "Glycan:HexHex", "Glycan:Hex2HexNAcHex"]      # a name may come twice
MISC = ["Obs:+17.05685", "Obs:-1.5", "INFO:anything here", "INFO:x", "#g1", "Oxidation#g1", "Oxidation#g1(0.5)",
        "#XL1", "Oxidation|INFO:x", "Phospho|Obs:+79.966|INFO:y", "+15.995#g2", "XLMOD:02001#XL1", "Phospho#s1(0.90)",
        "Formula:C2H4|INFO:f", "Glycan:Hex|INFO:g"]
ISOTOPES = ["13C", "15N", "18O", "D", "T", "17O", "34S", "2H"]
STATICS_MASSY = ["[Carbamidomethyl]@C", "[Oxidation]@M", "[+15.995]@M", "[Formula:C2H4]@K,R", "[Acetyl]@N-Term",
                 "[Amidated]@C-Term", "[Phospho]@S,T,Y", "[1]@P", "[Methyl][Oxidation]@E", "[3.5]@N-Term,K",
                 "[Oxidation]^2@M", "[U:35]@W", "[Glycan:Hex]@N", "[-18.010565]@C-Term,D",
                 "[Acetyl]@N-term", "[+2.5]@C-term,K", "[Methyl]@n-term"]     # the ProForma 2.0 text writes N-term / C-term
STATICS = ["[Carbamidomethyl]@C", "[Oxidation]@M", "[+15.995]@M", "[Formula:C2H4]@K,R", "[Acetyl]@N-Term",
           "[Amidated]@C-Term", "[Phospho]@S,T,Y", "[1]@P", "[Methyl][Oxidation]@E", "[3.5]@N-Term,K", "[Oxidation]^2@M",
           "[Met->Hse]@M", "[(2S,3R)-3-hydroxyasparagine]@N,D", "[Xlink:DTSSP[88]]@K", "[Formula:[13C2]H4]@R",
           "[Acetyl]@N-term", "[2.5]@C-term,K"]
ADDUCTS = ["+H+", "+2Na+,+H+", "+Na+", "+K+", "+2H+", "-H+", "+Ca2+", "+Mg2+", "+Cl-", "+Li+", "+Na+,+K+", "+3H+",
           "+2Na+,-H+", "+e-"]


MASSY = (["Oxidation", "Phospho", "Acetyl", "Carbamidomethyl", "Methyl", "Deamidated", "Amidated", "Dehydrated",
          "Carbamyl", "U:Oxidation", "UNIMOD:35", "U:35", "Unimod:21", "unimod:Acetyl", "MOD:00046",
          "M:O-phospho-L-serine", "O-phospho-L-serine", "Label:13C(6)", "Label:13C(6)15N(2)", "U:+15.995", "M:-18.01",
          "Obs:+17.05685", "Obs:-1.5", "Oxidation#g1", "#g1", "Oxidation#g1(0.5)", "Oxidation|INFO:x",
          "Phospho|Obs:+79.966|INFO:y", "+15.995#g2", "Formula:C2H4|INFO:f", "Glycan:Hex|INFO:g", "Phospho#s1(0.90)",
          "INFO:x|Oxidation", "21#g1", "35#g2(0.5)"] + FORMULAS + GLYCANS)


def modval(rnd: random.Random, kinds="all") -> str:
    r = rnd.random()
    if kinds == "massy2":   # every spelling whose mass the specification knows a priori
        if r < 0.3:
            t, b = rnd.choice(NUMS)
            return f"{t}:{b}"
        return "s:" + rnd.choice(MASSY)
    if kinds == "num" or (kinds == "all" and r < 0.35):
        if rnd.random() < 0.3:    # any decimal: 1..10 decimals, written as Python writes it (no exponent form)
            x = round(rnd.uniform(-300, 300) * rnd.choice([1, 1, 0.01, 0.0001]), rnd.randint(1, 10))
            if rnd.random() < 0.15:      # below 1e-4 Python writes the float in exponent form ("1.5e-05")
                x = round(rnd.uniform(-9e-5, 9e-5), rnd.randint(6, 10))
            if x != 0 and "e+" not in repr(x):
                return f"f:{x!r}"
        t, b = rnd.choice(NUMS)
        return f"{t}:{b}"
    if kinds == "massy":   # values whose mass is known a priori
        pool = rnd.choice([NAMES[:8], FORMULAS, GLYCANS])
        return "s:" + rnd.choice(pool)
    if r < 0.6:
        return "s:" + rnd.choice(NAMES)
    if r < 0.75:
        return "s:" + rnd.choice(FORMULAS)
    if r < 0.85:
        return "s:" + rnd.choice(GLYCANS)
    return "s:" + rnd.choice(MISC)


def mod(rnd, kinds="all", mult=True):
    m = 1
    if mult and rnd.random() < 0.25:
        m = rnd.choice([2, 2, 3, 10])
    return {"v": modval(rnd, kinds), "m": m}


def modlist(rnd, kinds="all", mult=True, pmore=0.3):
    out = [mod(rnd, kinds, mult)]
    while rnd.random() < pmore and len(out) < 3:
        out.append(mod(rnd, kinds, mult))
    return out


def empty(seq) -> dict:
    return {"seq": list(seq), "labile": [], "static": [], "isotope": [], "unknown": [], "nterm": [], "cterm": [],
            "internal": [], "intervals": [], "charge": 0, "adducts": []}


def annotation(rnd: random.Random, minlen=1, maxlen=25, alphabet=RES26, kinds="all", p=None, intervals=True,
               density=0.25) -> dict:
    """A random well-formed abstract annotation.  p: probability of each optional feature."""
    p = {"labile": 0.2, "static": 0.2, "isotope": 0.2, "unknown": 0.2, "nterm": 0.3, "cterm": 0.3, "interval": 0.35,
         "charge": 0.3, "adducts": 0.5, **(p or {})}
    n = rnd.randint(minlen, maxlen)
    A = empty(rnd.choice(alphabet) for _ in range(n))
    if rnd.random() < p["labile"]:
        A["labile"] = modlist(rnd, kinds)
    if rnd.random() < p["static"]:
        A["static"] = [{"v": "s:" + s, "m": 1} for s in rnd.sample(STATICS, rnd.choice([1, 1, 2]))]
    if rnd.random() < p["isotope"]:
        A["isotope"] = [{"v": "s:" + s, "m": 1} for s in rnd.sample(ISOTOPES, rnd.choice([1, 1, 2]))]
    if rnd.random() < p["unknown"]:
        A["unknown"] = modlist(rnd, kinds)
    if rnd.random() < p["nterm"]:
        A["nterm"] = modlist(rnd, kinds)
    if rnd.random() < p["cterm"]:
        A["cterm"] = modlist(rnd, kinds)
    for i in range(n):
        if rnd.random() < density:
            A["internal"].append({"i": i, "mods": modlist(rnd, kinds)})
    if intervals and n >= 1 and rnd.random() < p["interval"]:
        # 1-3 non-overlapping intervals, possibly adjacent, possibly at the very start / end
        cuts = sorted(rnd.sample(range(n + 1), min(n + 1, rnd.choice([2, 2, 3, 4, 4, 6]))))
        if rnd.random() < 0.3:
            cuts[0] = 0
        if rnd.random() < 0.3:
            cuts[-1] = n
        cuts = sorted(set(cuts))
        k = 0
        while k + 1 < len(cuts):
            s, e = cuts[k], cuts[k + 1]
            A["intervals"].append({"s": s, "e": e, "amb": rnd.random() < 0.3,
                                   "mods": modlist(rnd, kinds) if rnd.random() < 0.7 else []})
            k += 1 if rnd.random() < 0.4 else 2   # adjacent interval or a gap
    if rnd.random() < p["charge"]:
        A["charge"] = rnd.choice([1, 2, 3, -1, -2, 4, 10])
        if rnd.random() < p["adducts"]:
            A["adducts"] = [{"v": "s:" + rnd.choice(ADDUCTS), "m": 1}]
    return A


# -------------------------------------------------------------------------------------------------------------
def _valtext(v: str, plus: bool) -> str:
    tag, body = v[0], v[2:]
    if plus and tag in "if" and not body.startswith("-") and body not in ("0", "0.0"):
        return "+" + body
    return body


def _modtext(m, o, c, plus):
    return o + _valtext(m["v"], plus) + c + (f"^{m['m']}" if m["m"] > 1 else "")


def _mods(ms, o, c, plus):
    return "".join(_modtext(m, o, c, plus) for m in ms)


def render(A: dict, plus=False, zplus=False) -> str:
    s = _mods(A["labile"], "{", "}", plus) + _mods(A["static"], "<", ">", plus) + _mods(A["isotope"], "<", ">", plus)
    if A["unknown"]:
        s += _mods(A["unknown"], "[", "]", plus) + "?"
    if A["nterm"]:
        s += _mods(A["nterm"], "[", "]", plus) + "-"
    internal = {e["i"]: e["mods"] for e in A["internal"]}
    n = len(A["seq"])
    for p in range(n + 1):
        for iv in A["intervals"]:
            if iv["e"] == p:
                s += ")" + _mods(iv["mods"], "[", "]", plus)
        for iv in A["intervals"]:
            if iv["s"] == p:
                s += "(" + ("?" if iv["amb"] else "")
        if p < n:
            s += A["seq"][p] + _mods(internal.get(p, []), "[", "]", plus)
    if A["cterm"]:
        s += "-" + _mods(A["cterm"], "[", "]", plus)
    if A["charge"]:
        s += "/" + ("+" if zplus and A["charge"] > 0 else "") + str(A["charge"])
    s += _mods(A["adducts"], "[", "]", plus)
    return s


def render_multi(chains, links, plus=False, zplus=False) -> str:
    s = ""
    for k, A in enumerate(chains):
        s += render(A, plus, zplus)
        if k < len(chains) - 1:
            s += "//" if links[k] else "+"
    return s


def pyval(v: str):
    tag, body = v[0], v[2:]
    return int(body) if tag == "i" else float(body) if tag == "f" else body


def build(pp, A: dict):
    """Real ProFormaAnnotation from lists/dicts (constructor path, not the parser)."""
    from peptacular.proforma.proforma_dataclasses import Mod, Interval

    def ml(ms):
        return [Mod(pyval(m["v"]), m["m"]) for m in ms] if ms else None
    internal = {e["i"]: ml(e["mods"]) for e in A["internal"]} or None
    ivs = [Interval(iv["s"], iv["e"], iv["amb"], ml(iv["mods"])) for iv in A["intervals"]] or None
    return pp.ProFormaAnnotation(_sequence="".join(A["seq"]), _isotope_mods=ml(A["isotope"]),
                                 _static_mods=ml(A["static"]), _labile_mods=ml(A["labile"]),
                                 _unknown_mods=ml(A["unknown"]), _nterm_mods=ml(A["nterm"]), _cterm_mods=ml(A["cterm"]),
                                 _internal_mods=internal, _intervals=ivs, _charge=A["charge"] or None,
                                 _charge_adducts=ml(A["adducts"]))
