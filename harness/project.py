"""The projection: Python values -> abstract JSON values the TLA+ specification reads.

Fixed, dumb mappings only.  No peptide knowledge, no expectations.
 * float -> fixed point <<ip, fp>>: value = ip + fp * 1e-9, 0 <= fp < 10^9 (both fit TLC's 32-bit ints)
 * str -> list of 1-character strings where the spec indexes into it
 * None -> the absent marker documented per field
 * exception -> "exc:<ClassName>" plus whether it is a ValueError
"""
from __future__ import annotations

import signal
from decimal import Decimal, ROUND_HALF_EVEN, ROUND_FLOOR

NANO = Decimal("0.000000001")


def fix(x, scale=NANO) -> list:
    """float/int/Decimal -> [ip, fp] with value = ip + fp*1e-9 (fp in 0..999999999)."""
    if isinstance(x, float):
        d = Decimal(repr(x))
    else:
        d = Decimal(x)
    d = d.quantize(scale, rounding=ROUND_HALF_EVEN)
    ip = int(d.to_integral_value(rounding=ROUND_FLOOR))
    fp = int((d - ip) / NANO)
    if not (-2 ** 31 < ip < 2 ** 31):
        raise OverflowError(x)
    return [ip, fp]


def chars(s: str) -> list:
    return list(s)


class Hang(Exception):
    pass


def _alarm(signum, frame):
    raise Hang()


def call(fn, *a, watchdog: float = 0.0, **kw):
    """Call fn; return (outcome, value) with outcome 'ret' | 'exc:<Class>' | 'hang'."""
    if watchdog:
        # CPU time of this process, not wall time: a parser that loops burns CPU and is caught after `watchdog` seconds
        # of it, while a busy machine (many checks side by side) cannot turn a millisecond call into a "hang".
        # Wall clock only as a distant backstop for a call that blocks without computing.
        signal.signal(signal.SIGPROF, _alarm)
        signal.signal(signal.SIGALRM, _alarm)
        signal.setitimer(signal.ITIMER_PROF, watchdog)
        signal.setitimer(signal.ITIMER_REAL, 60 * watchdog)
    try:
        v = fn(*a, **kw)
        return "ret", v
    except Hang:
        return "hang", None
    except BaseException as ex:  # noqa
        if isinstance(ex, (KeyboardInterrupt, SystemExit)):
            raise
        return f"exc:{type(ex).__name__}", ex
    finally:
        if watchdog:
            signal.setitimer(signal.ITIMER_PROF, 0)
            signal.setitimer(signal.ITIMER_REAL, 0)


def exc_info(outcome: str, ex) -> dict:
    """Outcome record: cls = 'ret' | 'hang' | exception class name; isv = 1 iff a ValueError (sub)class."""
    if outcome == "ret":
        return {"cls": "ret", "isv": 0}
    if outcome == "hang":
        return {"cls": "hang", "isv": 0}
    return {"cls": outcome[4:], "isv": 1 if isinstance(ex, ValueError) else 0}


# ---------------------------------------------------------------------------------------------
# ProFormaAnnotation -> abstract annotation (spec/Annotation.tla)
def val(v) -> str:
    if isinstance(v, bool):
        return "s:" + str(v)
    if isinstance(v, int):
        return "i:" + str(v)
    if isinstance(v, float):
        return "f:" + repr(v)
    return "s:" + str(v)


def mod(m) -> dict:
    if not hasattr(m, "val"):      # a foreign object inside a modification list (projected, so that TLC can see it)
        return {"v": "s:<" + type(m).__name__ + ":" + str(m)[:40] + ">", "m": 1}
    return {"v": val(m.val), "m": m.mult}


def mods(ms) -> list:
    return [mod(m) for m in ms] if ms else []


def ann(a) -> dict:
    """Project a ProFormaAnnotation. None and [] both map to the empty list (same abstract value); the `has`
    bitmap keeps the None/non-None distinction for the session properties."""
    internal = []
    if a.internal_mods:
        for k in sorted(a.internal_mods):
            if a.internal_mods[k]:
                internal.append({"i": k, "mods": mods(a.internal_mods[k])})
    ivs = []
    if a.intervals:
        for iv in a.intervals:
            if not hasattr(iv, "start"):
                ivs.append({"s": -1, "e": -1, "amb": False, "mods": [mod(iv)]})
                continue
            ivs.append({"s": iv.start, "e": -1 if iv.end is None else iv.end, "amb": bool(iv.ambiguous),
                        "mods": mods(iv.mods)})
    return {"seq": list(a.sequence), "labile": mods(a.labile_mods), "static": mods(a.static_mods),
            "isotope": mods(a.isotope_mods), "unknown": mods(a.unknown_mods), "nterm": mods(a.nterm_mods),
            "cterm": mods(a.cterm_mods), "internal": internal, "intervals": ivs,
            "charge": a.charge if isinstance(a.charge, int) and a.charge is not None else 0,
            "adducts": mods(a.charge_adducts)}


def has_bits(a) -> list:
    return [int(x is not None) for x in (a.isotope_mods, a.static_mods, a.labile_mods, a.unknown_mods, a.nterm_mods,
                                         a.cterm_mods, a.internal_mods, a.intervals, a.charge, a.charge_adducts)]


def count8(x) -> dict:
    """A composition count (int or float) -> sign + three base-1e4 limbs: |x| = c0 + c1*1e-4 + c2*1e-8."""
    d = Decimal(repr(x)) if isinstance(x, float) else Decimal(x)
    neg = d < 0
    d = abs(d).quantize(Decimal("0.00000001"), rounding=ROUND_HALF_EVEN)
    c0 = int(d)
    rest = int((d - c0) * 10 ** 8)
    return {"neg": bool(neg), "c0": c0, "c1": rest // 10000, "c2": rest % 10000}


def comp8(c: dict) -> list:
    return [{"sym": str(k), **count8(v)} for k, v in sorted(c.items(), key=lambda kv: str(kv[0]))]


def poison(pp, text: str) -> None:
    """Things a caller may do with a ProForma TEXT and with what the library returns for it.  A string is immutable, so
    none of this may change what any later call on the same text returns; if the library keeps parsed objects per text
    (a cache) and hands them out, the edits below reach it.  Every step is allowed to raise."""
    from peptacular.proforma.proforma_dataclasses import Mod

    def edit(a):
        if isinstance(a, pp.ProFormaAnnotation):
            a.add_nterm_mods([Mod("POISON", 1)], append=True)
            if len(a.sequence) > 0:
                a.add_internal_mod(0, [Mod("POISON", 1)], append=True)
            a.add_labile_mods([Mod("POISON", 1)], append=True)
            a.charge = 7
    steps = [
        lambda: edit(pp.parse(text)),
        lambda: pp.add_mods(text, {"nterm": [Mod("POISON", 1)], 0: [Mod("POISON", 1)]}),
        lambda: pp.comp_mass(text, ion_type="b", charge=1),
        lambda: [edit(x) for x in pp.apply_variable_mods(text, {}, 0, return_type="annotation")],
        lambda: [edit(f.parent_sequence) for f in pp.fragment(text, "b", 1)[:1]],
        lambda: edit(pp.sequence.sequence_funcs.sequence_to_annotation(text)),
    ]
    for s in steps:
        try:
            s()
        except Exception:      # noqa
            pass


def maybe_poison(pp, text: str, tid: str, every: int = 3) -> None:
    """poison() for a deterministic third of the events (the choice depends on the event id only)."""
    import zlib
    if zlib.crc32(tid.encode()) % every == 0:
        poison(pp, text)


def poison_values(pp, A: dict, tid: str, every: int = 3) -> None:
    """For a deterministic third of the events: ask for the composition of every modification value of the abstract
    annotation A and edit the dictionaries that come back (clear them, relabel them).  Returned dictionaries belong to
    the caller; doing this must not change any later answer."""
    import zlib
    if zlib.crc32(("v" + tid).encode()) % every:
        return
    vals = []
    for sl in ("labile", "unknown", "nterm", "cterm"):
        vals += [m["v"] for m in A.get(sl, [])]
    for e in A.get("internal", []):
        vals += [m["v"] for m in e["mods"]]
    for iv in A.get("intervals", []):
        vals += [m["v"] for m in iv["mods"]]
    for v in vals:
        if not v.startswith("s:"):
            continue
        for alt in v[2:].split("|"):
            alt = alt.split("#")[0]
            try:
                if alt.lower().startswith("formula:"):
                    pp.apply_isotope_mods_to_composition(alt.split(":", 1)[1], ["13C", "15N", "18O"])
                d = pp.mod_comp(alt)
                if isinstance(d, dict):
                    for k in list(d):
                        d[k] = d[k] + 7
                    d["Xx"] = 3
            except Exception:      # noqa
                pass
