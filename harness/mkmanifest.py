#!/usr/bin/env python3
"""Regenerate /verif/MANIFEST.json from the table below (run after adding a check)."""
import json
import os

HERE = os.path.dirname(os.path.dirname(os.path.abspath(__file__)))
BASE = "cd /repo && /venv/bin/python -m pytest -ra -q -p no:cacheprovider --timeout=900 --continue-on-collection-errors"

# property -> (technique, level text, level note, design ref)
CHECKS = {
    "C06": ("TLA+ reference spec (Digest.tla) + TLC model check of the semi-span machine (MC_Digest) + TLC trace "
            "validation of recorded get_cleavage_sites/build_spans/digest/sequential_digest calls (Trace_Digest)",
            "TLC proves, for every configuration up to the tier's bound, that the state-machine transcription of the "
            "grouped semi-span builder emits exactly the spans of the declarative definition; every recorded call of "
            "the real code (exhaustive over short proteins / site sets / options, random beyond) is then judged by TLC "
            "against that definition.",
            "Assumes TLC evaluates the spec correctly and the projection (lists of ints/characters) is faithful. "
            "User regexes are limited to the rule-record families the spec interprets.", "DESIGN.md §6 C06"),
}
CHECKS["C01"] = (
    "TLA+ reference spec (Annotation.tla, ProFormaText.tla) + TLC enumeration of the bounded annotation space with "
    "law checking (MC_ProForma) whose cases are replayed into the real parser/serializer + TLC trace validation "
    "(Trace_ProForma)",
    "TLC enumerates every annotation of a bounded feature cross product, checks the reference-layer laws on it and "
    "emits each annotation with its spellings; the real parse/serialize/constructor are run on every spelling and on "
    "seeded larger annotations (length <=25, 1-3 chains), and TLC decides for each recorded call whether the parsed "
    "structure, both serialisations, the re-parse and == are what the notation denotes.",
    "Assumes TLC evaluates the spec correctly; the projection of ProFormaAnnotation (None and [] identified) is "
    "faithful; the text renderer of the random generator is re-checked by TLC against ProFormaText!WriteV for every event.",
    "DESIGN.md §6 C01")
CHECKS["C11"] = (
    "TLA+ reference operators (Annotation.tla: ReverseAnn, ShiftAnn, Slice, Piece, Concat, IsResiduePermutation) "
    "with their laws model-checked on the bounded annotation space (MC_ProForma) + TLC trace validation of recorded "
    "reverse/shift/shuffle/sort/slice/split calls (Trace_Annotation)",
    "The algebraic laws of the property (involutions, slice composition, concat of pieces, residue-bag preservation) "
    "are model-checked for the reference operators over the bounded space; every recorded call of the real code - "
    "copy form, inplace form and string-level function - is judged by TLC against those operators.",
    "Assumes TLC and the projection are correct. Shuffle is judged as 'some residue permutation'; intervals are "
    "constrained only where the statement does (reverse, slice, identities).", "DESIGN.md §6 C11")
CHECKS["C19"] = (
    "TLA+ reference enumerations (Combinatoric.tla, counts/order model-checked in MC_Combinatoric) + TLC trace "
    "validation of recorded permutations/combinations/product calls (Trace_Annotation!CombFails)",
    "TLC checks that the reference index-tuple enumerations have the closed-form counts and itertools order for all "
    "n<=4, k<=5, then judges every recorded expansion of the real code item by item, in order, against the "
    "enumeration wrapped in the peptide's unchanged outer annotations.",
    "Assumes TLC and the projection are correct; result lists are capped (800 quick / 3000 thorough items).",
    "DESIGN.md §6 C19")
CHECKS["C20"] = (
    "TLA+ reference equality/strip/dictionary operators (Annotation.tla; MC_Equal model-checks that Equal is an "
    "order-insensitive equivalence separating every other difference) + TLC trace validation of recorded "
    "get_mods/add_mods, create_annotation(**dict()), copy, strip and == calls (Trace_Annotation)",
    "The specification's Equal is model-checked on a bounded space; for each recorded == of the real code on an "
    "annotation and a single-field perturbation TLC computes Equal(A,B) itself and compares; reconstruction, copy "
    "independence (edits on either side) and strip are judged against the abstract annotation.",
    "Assumes TLC and the projection are correct; perturbations are produced by the driver but classified by the spec.",
    "DESIGN.md §6 C20")
CHECKS["C16"] = (
    "TLA+ reference spec (Search.tla) + TLC model check of the scan machine in both variants (MC_Search: overlapped "
    "scan refines Occurrences, non-overlapped does not) + TLC trace validation of recorded find/coverage/"
    "percent_coverage/is_subsequence calls (Trace_Search)",
    "TLC shows the overlapped regex-scan machine returns exactly the declarative occurrence set for all targets <=6 / "
    "queries <=3 over two letters; the real functions are then run on every target <=9 x query <=4 over {A,K} and on "
    "seeded modified targets, and TLC judges each recorded result against the declarative definitions.",
    "Assumes TLC and the projection are correct. Targets carry no ambiguity intervals (the statement does not say "
    "what a match inside an interval means).", "DESIGN.md §6 C16")
CHECKS["C17"] = (
    "TLA+ reference spec (Match.tla) + TLC model check of the two-pointer sweep machine (MC_Sweep refines Window for "
    "every pair of sorted lists on a small grid; Apa_Sweep: the same machine's invariant proved inductive by Apalache for "
    "integers of any size) + TLC trace validation of recorded get_matched_indices/match_spectra/"
    "get_fragment_matches/get_matched_intensity_percentage/get_match_coverage calls (Trace_Match)",
    "TLC explores the sweep (shared lower pointer, restarted upper pointer) for all sorted lists up to 3x4 on a 5-point "
    "grid and all tolerances and shows each emitted window equals the declarative one; recorded calls of the real code "
    "on exact 1/8-Th grids (th and ppm) and on off-grid decimals are judged by TLC with inclusive bounds, admissible "
    "answer sets for closest/largest, order-independence of fragment matching, the matched-intensity fraction and coverage.",
    "Values live on grids where every float operation of the code is exact (stated in Match.tla); off-grid cases with a "
    "peak within 2e-9 of a window edge are not judged. binomial_score is not covered.", "DESIGN.md §6 C17")
CHECKS["C02"] = (
    "TLA+ first-principles mass model (Nist.tla independent atomic masses, Chem.tla residues/formula parser, Mods.tla "
    "modification semantics, Mass.tla) with its laws model-checked (MC_Mass) + TLC trace validation of recorded "
    "mass()/mz() calls and of a Unimod table sweep (Trace_Mass)",
    "TLC model-checks the laws that keep the reference honest (z protons per charge, slot invariance, linear "
    "multipliers, labile only for the precursor, static rule = explicit form, concatenation) and then recomputes, for "
    "every recorded call of the real mass/mz, the expected value as residues + water + mods x multiplier + carriers + "
    "isotope neutrons + loss in exact fixed-point arithmetic from an atomic-mass table typed independently of the "
    "library's, and compares within the property's tolerances.",
    "Assumes TLC, the 1e-9 fixed-point projection and the typed NIST table (cross-checked once against chem.txt, "
    "S average corrected by hand). Named modifications are limited to a hand vocabulary with a-priori compositions; "
    "all other Unimod entries are covered through their tabulated masses.", "DESIGN.md §6 C02")
CHECKS["C03"] = (
    "TLA+ relational check in Trace_Mass (mass of the returned composition computed by TLC from the independent "
    "Nist table, plus the reported delta, against the returned mass) over recorded mass()/comp_mass()/comp(estimate) "
    "calls and Unimod/PSI-MOD table sweeps; reference laws in MC_Mass",
    "For every recorded pair of calls with identical options TLC computes the mass of the composition the library "
    "returned (exact fixed point, counts to 1e-8, independent atomic masses) and compares it with the mass the library "
    "returned, in both modes and for all 18 ion types; vocabulary rows are judged only when the spec's predicates "
    "(OnlyCHNOPS for average mode, RowSelfConsistent for PSI-MOD) hold on the raw table row.",
    "Assumes TLC and the projection (counts quantised to 1e-8, masses to 1e-9). Elements outside the independent "
    "table are not judged.", "DESIGN.md §6 C03")
CHECKS["C04"] = (
    "TLA+ reference spec of the ion set, numbering, labels and applicable losses (Fragment.tla; span counts "
    "model-checked in MC_Series) + TLC trace validation of recorded fragment()/Fragmenter calls with the real "
    "mass()/mz() of every returned ion (Trace_Fragment!FragmentFails)",
    "TLC computes the exact set of (type, span, charge, isotope, applicable loss) keys the call must return and "
    "requires each exactly once, checks each ion's sequence text against the written slice of the annotation, its "
    "number and label, its mass and m/z against the recorded real mass()/mz() of that ion, and that the five other "
    "return types and the Fragmenter object are the same list.",
    "Assumes TLC and the projection; losses are single-class regexes the spec can interpret; ion masses are compared "
    "with the library's own calculator (C02/C05 tie that calculator to first principles).", "DESIGN.md §6 C04")
CHECKS["C05"] = (
    "TLA+ series chemistry (Fragment.tla offsets from the independent Nist table; consistency model-checked in "
    "MC_Series) + TLC trace validation of recorded fragment()/mass() values (Trace_Fragment!SeriesFails)",
    "TLC model-checks that the reference offsets are consistent (complementary b/y pairs, shift law) and then checks, "
    "on recorded fragment masses of the real code for all 16 ion types and charges 1..4, the relations b+y = M+2p, "
    "a = b-CO, c = b+NH3, x = y+CO-H2, z = y-NH3, immonium, charge-state protons, internal-series offsets, and the "
    "absolute b / y / internal-by / immonium / neutral masses from first principles (so a modification shifts exactly "
    "the ions containing it).",
    "Assumes TLC and the projection. The link between the {ax,az,bx,bz} internal group and the by ion is not judged "
    "(see DESIGN.md limits).", "DESIGN.md §6 C05")
CHECKS["C12"] = (
    "TLA+ CondenseStatic / StaticRules / ApplyLabels operators (Annotation.tla, Mass.tla; law StaticEqualsExplicit "
    "model-checked in MC_Mass) + TLC trace validation of recorded condense_static_mods and of mass/comp/fragment/"
    "count_residues on rule form vs explicit form, and of isotope-label shifts (Trace_Mass!StaticFails, LabelFails)",
    "TLC requires the real condenser's output to be exactly the explicit form the specification computes, the same real "
    "queries to agree on both forms, and the neutral-mass shift of a global isotope label to equal the number of atoms "
    "of that element in residues and termini (and in modifications only when requested) times the isotope mass "
    "difference from the independent Nist table.",
    "Assumes TLC and the projection. Static targets are single residues / N-Term / C-Term.", "DESIGN.md §6 C12")
CHECKS["C18"] = (
    "TLA+ clauses over the parsed result of condense_to_mass_mods (Trace_Mass!CondenseFails: same residues, numeric "
    "modifications only, mass preserved within precision x shifts, shifts only where the condensed/label-expanded "
    "annotation is modified, unmodified unchanged) + named deviation for the recorded finding",
    "TLC judges every recorded call: the result must parse to the same residues with only numeric shifts, the real "
    "neutral masses of input and result must agree within 10^-precision per written shift, and (when every "
    "modification is localised) shifts must sit exactly on the residues / termini that the specification's condensed "
    "form modifies. The recorded finding is matched only by outputs of exactly the defective shape (own shift + one "
    "common extra on every residue).",
    "Assumes TLC and the projection; masses compared are the library's own (C02 ties them to first principles).",
    "DESIGN.md §6 C18")
CHECKS["C10"] = (
    "TLA+ modification semantics (Mods.tla, laws model-checked in MC_Mods) + spelling rules (Trace_Resolver!Spellings) "
    "+ TLC trace validation of recorded mod_mass / mod_comp / peptide-mass calls for every spelling of the bundled "
    "Unimod, PSI-MOD, XLMOD and monosaccharide rows and for seeded generic forms",
    "For every table row (read from the OBO files by an independent reader) TLC checks that each spelling used is a "
    "documented one, that all spellings agree on monoisotopic mass, average mass, composition and peptide mass (or all "
    "fail), that the resolved mass is the row's own, and that Unimod / monosaccharide tabulated masses equal the mass of "
    "the tabulated composition; generic forms are judged against the independent semantics (Formula / Glycan / Obs / "
    "prefixed numbers / tags / alternatives / multipliers).",
    "Assumes TLC and the projection; 'the same error' is read as 'every spelling fails'.", "DESIGN.md §6 C10")
CHECKS["C15"] = (
    "TLA+ formula grammar and compositions (Chem.tla; canonical-text round trip and additivity model-checked over a "
    "hazard symbol set in MC_Formula) + TLC trace validation of recorded write/parse_chem_formula, chem_mass, "
    "write/parse_glycan_formula, glycan_comp, glycan_mass calls (Trace_Formula)",
    "TLC model-checks that the reference grammar parses the canonical text of a composition back to it and is additive "
    "on a hazard symbol set (C/Ce/Cl/Co, particles, bracketed isotopes, decimals), then judges every recorded round "
    "trip of the real writer/parser (all separators, Hill order), that the written text denotes the composition under "
    "the notation, parse additivity on seeded texts, mass of string = mass of composition, and for glycans the round "
    "trip whenever the spec's tokenisation count says the written form is unambiguous, count-weighted composition and "
    "mass, names = synonyms.",
    "Assumes TLC and the projection (counts scaled by 1e4). Monosaccharide formulas travel as raw table rows.",
    "DESIGN.md §6 C15")
CHECKS["C14"] = (
    "TLA+ clauses over the returned isotopic pattern in exact fixed-point arithmetic (Trace_Isotope; limb arithmetic "
    "and isotope-mean consistency of the independent table model-checked in MC_Isotope) + TLC trace validation of "
    "recorded isotopic_distribution / merge_isotopic_distributions calls",
    "TLC judges each recorded pattern: sorted by mass; largest peak (or total) equals the requested abundance; without "
    "pruning the lightest peak is the monoisotopic mass of the composition including e/p/n and the abundance-weighted "
    "mean is its average mass (both from the independent Nist table); the neutron-offset view equals the mass view "
    "binned by nominal mass; merging adds abundances at equal masses.",
    "Assumes TLC and the projection (abundances quantised to 1e-8). The exact multinomial comparison for small formulas "
    "is not implemented yet (see DESIGN.md limits); patterns above 1200 peaks are skipped in the quick tier.",
    "DESIGN.md §6 C14")
CHECKS["C13"] = (
    "TLA+ reference spec (ModBuilder.tla: StaticForm, VariableForms as explicit subset enumeration) + TLC model check "
    "of the include/exclude recursion machine with the modified-residue stop rule (MC_ModBuilder refines "
    "InternalForms, no form twice, StaticForm idempotent) + TLC trace validation of recorded apply_static_mods / "
    "apply_variable_mods calls (Trace_ModBuilder)",
    "TLC shows, for every sequence up to 4 residues / rule set / max_mods up to 3, that the recursion machine emits "
    "exactly the declaratively enumerated forms once each; recorded calls of the real builders are judged against "
    "StaticForm (all three conflict modes, idempotence in skip mode, argument unchanged) and against VariableForms as a "
    "set with no form twice (skip mode), or against the four weaker clauses of the statement (append / overwrite).",
    "Assumes TLC and the projection; target regexes are limited to the three families the spec interprets; terminal "
    "variable modifications are not counted against max_mods (the statement speaks of sites).", "DESIGN.md §6 C13")
CHECKS["C09"] = (
    "Exhaustive enumeration of token strings replayed into the real parser + TLC trace validation of every outcome "
    "class (Trace_Parser!BucketFails) and of the deferred-validation corpus against the TLA+ modification semantics "
    "(Trace_Parser!DeferredFails over Mods.tla)",
    "Every string of up to 4 (quick) / 5 (thorough) tokens over the 27-token alphabet is parsed, serialised and "
    "validated by the real code under a watchdog; every outcome class that occurs (with counts and witnesses) is "
    "judged by TLC: only 'returned and serialisable' or a ValueError are allowed. For the deferred clause TLC decides "
    "from the independent semantics whether a value has a meaning and requires parse to succeed and mass / comp to "
    "raise a ValueError exactly for the meaningless ones.",
    "Assumes TLC and the projection (exception class + isinstance ValueError). The character-level parser machine in "
    "TLA+ is future work (DESIGN.md §8); hangs are detected by a 2 s watchdog.", "DESIGN.md §6 C09")
CHECKS["C07"] = (
    "TLA+ Slice / Write / DigestSpans operators (Annotation.tla, ProFormaText.tla, Digest.tla) and labelled water from "
    "Chem.tla + TLC trace validation of recorded digest calls on modified proteins in all five return types, with "
    "re-parse, subsequence search and mass-conservation clauses (Trace_DigestMods)",
    "For every returned peptide TLC checks that the annotation is the specification's slice of the protein (residue "
    "mods on the same residues, terminal mods only with the terminus, global rules kept, contained intervals), that "
    "string, annotation and span return types describe the same peptides in the same order, that the spans are those "
    "the rule defines, that the string re-parses to the annotation and is found at its offset by the real subsequence "
    "search, and that the real masses of the zero-missed-cleavage peptides sum to the real protein mass plus one "
    "(label-adjusted) water per cut.",
    "Assumes TLC and the projection; intervals never straddle a cut (as the property's quantifier says).",
    "DESIGN.md §6 C07")
CHECKS["C08"] = (
    "TLA+ session state machine (Session.tla: call table with Query / Editor classes and editor effects; MC_Session "
    "model-checks the frame condition and, with the implementation-shaped deviant split, returns the shortest "
    "history-dependence witness) + TLC trace validation of recorded call histories on one shared object "
    "(Trace_Session, stateful: the spec state follows the logged state)",
    "Every history of 2 calls (all ordered pairs in the thorough tier) and random triples over 98 public calls is "
    "executed on one shared annotation with tracked auxiliary containers; after every call the full projected state of "
    "the object, the containers, the random state and the vocabulary sizes is logged, with the result, the result of "
    "the same call on a fresh object rebuilt from the pre-state, and the state after the harness edited the returned "
    "value. TLC walks each history: queries must be stuttering steps with history-free results that share no state "
    "with the arguments; editors must have exactly their specified effect.",
    "Assumes TLC and the projection (canonical JSON text of results). Arguments are fixed small values per call.",
    "DESIGN.md §6 C08")
NOT_YET = "check not built yet in this round (planned with the TLA+ technique, see DESIGN.md §6)"


def main():
    props = [json.loads(l) for l in open(os.path.join(HERE, "properties.jsonl"))]
    checks, na = [], []
    for p in props:
        pid = p["id"]
        if pid in CHECKS and os.path.exists(os.path.join(HERE, "harness", "drivers", pid.lower() + ".py")):
            tech, text, note, ref = CHECKS[pid]
            checks.append({
                "property_id": pid,
                "quick_cmd": f"./check {pid} --tier quick",
                "thorough_cmd": f"./check {pid} --tier thorough",
                "evidence_file": f"/verif/evidence/{pid}.json",
                "replay_cmd_template": f"./check {pid} --replay {{path}}",
                "engine": "tlc",
                "level_claimed": {"category": "model_checking", "text": text, "design_ref": ref},
                "level_note": note,
                "technique": tech,
            })
        else:
            na.append({"property_id": pid, "reason": NOT_YET})
    man = {
        "version": 1,
        "setup_cmd": "./setup.sh",
        "hooks": {"guard": "PEPTACULAR_VERIF", "enable": "no source hooks are needed: peptacular is a sequential "
                  "library whose public API exposes the whole abstract state; the linearisation point of every action "
                  "is the return of a public call, observed by the harness",
                  "baseline_off_cmd": BASE, "source_commits": [], "add_only": True},
        "engines": [{"name": "tlc", "path": "/opt/veriftools/tla/tla2tools.jar",
                     "serves_properties": [c["property_id"] for c in checks],
                     "kind_free_text": "TLC 1.8 explicit-state model checker: model checking of /verif/spec/MC_*, "
                                       "generation of cases / behaviours (MC_ProForma, MC_Session, MC_Foreign) and trace "
                                       "validation (Trace_*)"},
                    {"name": "apalache", "path": "/usr/local/bin/apalache-mc", "serves_properties": ["C17"],
                     "kind_free_text": "Apalache 0.58 symbolic model checker: inductive invariant of the sweep machine "
                                       "(spec/Apa_Sweep.tla) for unbounded integer values; stage A of C17"}],
        "checks": checks,
        "not_applicable": na,
        "notes": "Verdicts are always TLC's; Python drivers only generate inputs, call peptacular and project values. "
                 "Known findings: /verif/known_findings.json (named deviations in the Trace_* specs).",
    }
    json.dump(man, open(os.path.join(HERE, "MANIFEST.json"), "w"), indent=1)
    print(f"{len(checks)} checks, {len(na)} not_applicable")


if __name__ == "__main__":
    main()
