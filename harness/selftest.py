#!/venv/bin/python
"""Binding demonstration (DESIGN.md §4.5): for several trace families record a few events from the real code, show
that TLC accepts them, then corrupt ONE recorded field and show that TLC rejects exactly that event.

    /venv/bin/python harness/selftest.py        (exit 0 = every corruption was rejected and nothing else was)
"""
from __future__ import annotations

import copy
import os
import random
import sys
import warnings

HERE = os.path.dirname(os.path.dirname(os.path.abspath(__file__)))
sys.path.insert(0, HERE)
sys.path.insert(0, "/repo/src")
os.chdir(HERE)
warnings.simplefilter("ignore")

from harness import core, anngen, calls  # noqa: E402
from harness.drivers import c01, c02, c06, c08, c11, c16, c17  # noqa: E402
import peptacular as pp  # noqa: E402


def bump(fixnum, nano):
    ip, fp = fixnum
    fp += nano
    return [ip + fp // 10 ** 9, fp % 10 ** 9]


def demo(name, module, prop, events, corrupt, by=None):
    good = core.validate_traces(module, events, prop, devs=[], by=by)
    bad_events = copy.deepcopy(events)
    tid = corrupt(bad_events)
    bad = core.validate_traces(module, bad_events, prop, devs=[], by=by)
    rejected = {t for t, _ in bad["violations"]}
    before = {t for t, _ in good["violations"]}
    ok = tid in rejected and tid not in before and (rejected - before) <= {tid}
    print(f"{'ok  ' if ok else 'FAIL'} {name}: accepted before corruption={tid not in before}, rejected after={tid in rejected}, "
          f"other events newly rejected={sorted((rejected - before) - {tid})[:3]}")
    return ok


def main():
    rnd = random.Random(7)
    results = []

    # C06 spans: change one returned span end
    evs = c06._spans_events(pp, [(5, (1, 3), 1, True, None, None), (4, (2,), 0, False, None, None)], "S")

    def c(e):
        e[0]["res"][0][1] += 1
        return e[0]["tid"]
    results.append(demo("C06 span end +1", "Trace_Digest", "C06", evs, c))

    # C01 round trip: change the multiplier of a parsed modification
    A = anngen.annotation(random.Random(3), 4, 6, p={"nterm": 1.0})
    evs = [c01.rt_event(pp, "S.0", A, False, False, anngen.render(A))]

    def c(e):
        e[0]["parsed"]["nterm"][0]["m"] += 1
        return e[0]["tid"]
    results.append(demo("C01 parsed multiplier +1", "Trace_ProForma", "C01", evs, c))

    # C02 mass: add 1e-4 Da to the recorded mass
    A = c02.massy_annotation(random.Random(5), 8)
    A["adducts"] = []
    evs = [c02.mass_event(pp, "S.0", A, "mass", 2, "", True, 0, 0.0, -1, "str")]

    def c(e):
        e[0]["res"] = bump(e[0]["res"], 100000)
        e[0]["res2"] = e[0]["res"]
        return e[0]["tid"]
    results.append(demo("C02 mass +1e-4 Da", "Trace_Mass", "C02", evs, c))

    # C11 reverse: move one residue modification in the recorded result
    A = anngen.annotation(random.Random(11), 6, 6, intervals=False, density=1.0)
    evs = [e for e in c11.events_for(pp, random.Random(1), A, "S") if e["op"] == "reverse"]

    def c(e):
        e[0]["results"][0]["ann"]["internal"][0]["i"] += 0
        e[0]["results"][0]["ann"]["internal"][0]["mods"][0]["m"] += 1
        return e[0]["tid"]
    results.append(demo("C11 reversed residue mod changed", "Trace_Annotation", "C11", evs, c))

    # C16 search: drop one reported offset
    evs = [c16.ev_find(pp, "S.0", anngen.empty("AAAA"), anngen.empty("AA"), False, "ann")]

    def c(e):
        e[0]["res"].pop()
        return e[0]["tid"]
    results.append(demo("C16 one occurrence dropped", "Trace_Search", "C16", evs, c))

    # C17 matching: add an out-of-tolerance index
    from peptacular.score import match_spectra
    theo8, obs8 = [800, 820], [799, 800, 830]
    res = match_spectra([x / 8 for x in theo8], [x / 8 for x in obs8], 0.25, "th", "all")
    evs = [{"tid": "S.0", "k": "c17", "op": "match", "mode": "all", "tt": "th", "theo8": theo8, "obs8": obs8, "tol": 2,
            "inten": [1, 1, 1], "out": "ret", "res": [([] if x is None else list(x)) for x in res]}]

    def c(e):
        e[0]["res"][1].append(2)
        return e[0]["tid"]
    results.append(demo("C17 out-of-tolerance peak added", "Trace_Match", "C17", evs, c))

    # C08 session: remove the labile modification from the logged post-state of a query / drop an event of a history
    table = calls.table()
    evs = c08.run_history(pp, table, c08.SEEDS[0], ["mass", "serialize"], "S")

    def c(e):
        e[0]["post"]["obj"]["ann"]["labile"] = []
        return e[0]["tid"]
    results.append(demo("C08 labile mods missing from post-state", "Trace_Session", "C08", evs, c, by="hid"))
    evs = c08.run_history(pp, table, c08.SEEDS[0], ["pop_labile_mods", "mass", "serialize"], "T")

    def c(e):
        # drop the editor event: the next query's pre-state (what the spec remembers) no longer matches its post-state
        del e[0]
        e[0]["step"], e[0]["pre"] = 1, copy.deepcopy(evs[0]["pre"])
        e[1]["step"] = 2
        return e[0]["tid"]
    results.append(demo("C08 editor event dropped from the trace", "Trace_Session", "C08", evs, c, by="hid"))

    print(f"{sum(results)}/{len(results)} corruptions rejected")
    sys.exit(0 if all(results) else 1)


if __name__ == "__main__":
    main()
