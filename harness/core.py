"""Harness core: run TLC (model checking / generation / trace validation), collect TLC's verdicts,
map them through the committed known-findings file, write evidence.

There is no oracle in this file (nor in any driver): the verdict on every event is computed by TLC from
the TLA+ specification under /verif/spec.  Python generates/forwards inputs, calls peptacular, projects
Python values to the abstract state and counts TLC's verdict lines.
"""
from __future__ import annotations

import atexit
import concurrent.futures as cf
import json
import os
import re
import shutil
import subprocess
import sys
import time
from pathlib import Path

VERIF = Path(__file__).resolve().parent.parent
SPEC = VERIF / "spec"
EVID = VERIF / "evidence"
REPLAYS = VERIF / "replays"
KNOWN = VERIF / "known_findings.json"
JAR = "/opt/veriftools/tla/tla2tools.jar:/opt/veriftools/tla/CommunityModules-deps.jar"

_work = None


def workdir() -> Path:
    global _work
    if _work is None:
        _work = VERIF / ".work" / f"{os.getpid()}"
        _work.mkdir(parents=True, exist_ok=True)
        atexit.register(lambda: shutil.rmtree(_work, ignore_errors=True))
    return _work


class MachineryError(Exception):
    pass


def die_machinery(msg: str):
    print(f"MACHINERY-ERROR: {msg}", flush=True)
    sys.exit(2)


_STATS_RE = re.compile(r"(\d+) states generated, (\d+) distinct states found")
_uid = 0


def _tlc(module: str, cfg: str, env: dict | None = None, workers: int | str = 1, xmx: str = "2g",
         extra: list | None = None, timeout: int = 3600, tag: str = "", gc: int = 2, xss: str = "64m") -> dict:
    """Run TLC on /verif/spec/<module>.tla with config <cfg>. Returns dict(out, states, distinct, rc)."""
    global _uid
    _uid += 1
    meta = workdir() / f"meta_{module}_{tag}_{_uid}_{time.time_ns()}"
    meta.mkdir(parents=True, exist_ok=True)
    cmd = ["java", f"-Xmx{xmx}", f"-Xss{xss}", "-XX:+UseParallelGC", f"-XX:ParallelGCThreads={gc}", "-cp", JAR,
           "tlc2.TLC",
           "-workers", str(workers), "-metadir", str(meta), "-noGenerateSpecTE",
           "-config", cfg] + (extra or []) + [module]
    e = dict(os.environ)
    e.pop("JAVA_TOOL_OPTIONS", None)
    if env:
        e.update({k: str(v) for k, v in env.items()})
    t0 = time.time()
    try:
        p = subprocess.run(cmd, cwd=SPEC, env=e, capture_output=True, text=True, timeout=timeout)
        out, rc = p.stdout + p.stderr, p.returncode
    except subprocess.TimeoutExpired as ex:
        out = (ex.stdout or b"").decode() if isinstance(ex.stdout, bytes) else (ex.stdout or "")
        out += "\nTLC-TIMEOUT"
        rc = 124
    shutil.rmtree(meta, ignore_errors=True)
    m = _STATS_RE.findall(out)
    states, distinct = (int(m[-1][0]), int(m[-1][1])) if m else (0, 0)
    return dict(out=out, rc=rc, states=states, distinct=distinct, wall=time.time() - t0)


def model_check(module: str, cfg: str | None = None, workers: int | str = "auto", timeout: int = 3600,
                env: dict | None = None, extra: list | None = None, xmx: str = "8g") -> dict:
    """Stage A. A failure here is a machinery failure (the oracle is inconsistent), never a VIOLATION."""
    r = _tlc(module, cfg or f"{module}.cfg", env=env, workers=workers, timeout=timeout, extra=extra, xmx=xmx,
             tag="mc", gc=4)
    ok = r["rc"] == 0 and "Model checking completed. No error has been found." in r["out"]
    if not ok:
        sys.stdout.write(r["out"][-6000:])
        die_machinery(f"model check {module}/{cfg} failed (rc={r['rc']})")
    return r


_START_RE = re.compile(r'^<<\s*"(VERDICT|TOTAL|CASE|OUT)"')


def parse_tla_value(s: str):
    """Parse the subset of TLA+ value syntax TLC prints: strings, ints, <<tuples>>, {sets}, records, TRUE/FALSE."""
    pos = 0
    n = len(s)

    def ws():
        nonlocal pos
        while pos < n and s[pos] in " \n\t\r":
            pos += 1

    def val():
        nonlocal pos
        ws()
        c = s[pos]
        if c == '"':
            pos += 1
            buf = []
            while s[pos] != '"':
                if s[pos] == "\\":
                    pos += 1
                    ch = s[pos]
                    buf.append({"n": "\n", "t": "\t"}.get(ch, ch))
                else:
                    buf.append(s[pos])
                pos += 1
            pos += 1
            return "".join(buf)
        if s.startswith("<<", pos):
            pos += 2
            items = []
            ws()
            while not s.startswith(">>", pos):
                items.append(val())
                ws()
                if s[pos] == ",":
                    pos += 1
                ws()
            pos += 2
            return items
        if c == "{":
            pos += 1
            items = []
            ws()
            while s[pos] != "}":
                items.append(val())
                ws()
                if s[pos] == ",":
                    pos += 1
                ws()
            pos += 1
            return {"__set__": items}
        if c == "[":
            pos += 1
            rec = {}
            ws()
            while s[pos] != "]":
                m = re.compile(r"\w+").match(s, pos)
                key = m.group(0)
                pos = m.end()
                ws()
                assert s.startswith("|->", pos), s[pos:pos + 20]
                pos += 3
                rec[key] = val()
                ws()
                if s[pos] == ",":
                    pos += 1
                ws()
            pos += 1
            return rec
        if c == "(":
            # function printed as (a :> b @@ c :> d)
            pos += 1
            fn = {}
            ws()
            while s[pos] != ")":
                k = val()
                ws()
                assert s.startswith(":>", pos)
                pos += 2
                v = val()
                fn[json.dumps(k) if not isinstance(k, (str, int)) else k] = v
                ws()
                if s.startswith("@@", pos):
                    pos += 2
                ws()
            pos += 1
            return fn
        m = re.compile(r"-?\d+").match(s, pos)
        if m:
            pos = m.end()
            return int(m.group(0))
        m = re.compile(r"\w+").match(s, pos)
        if m:
            pos = m.end()
            w = m.group(0)
            return {"TRUE": True, "FALSE": False}.get(w, w)
        raise ValueError(f"cannot parse TLA value at {pos}: {s[pos:pos + 40]!r}")

    v = val()
    return v


def printed_tuples(out: str):
    """Yield parsed <<"VERDICT"|"TOTAL"|"CASE"|"OUT", ...>> tuples printed by TLC (possibly spanning lines)."""
    buf = None
    for line in out.splitlines():
        if buf is None:
            if _START_RE.match(line):
                buf = line
            else:
                continue
        else:
            buf += "\n" + line
        # complete when brackets balance
        if _balanced(buf):
            try:
                yield parse_tla_value(buf)
            except Exception as ex:  # pragma: no cover
                raise MachineryError(f"unparsable TLC print: {buf[:300]!r}: {ex}")
            buf = None


def _balanced(s: str) -> bool:
    depth = 0
    i = 0
    instr = False
    while i < len(s):
        c = s[i]
        if instr:
            if c == "\\":
                i += 1
            elif c == '"':
                instr = False
        else:
            if c == '"':
                instr = True
            elif s.startswith("<<", i):
                depth += 1
                i += 1
            elif s.startswith(">>", i):
                depth -= 1
                i += 1
        i += 1
    return depth == 0 and not instr


def apalache(module: str, init: str, inv: str, length: int, timeout: int = 1200, expect_error: bool = False) -> dict:
    """Run Apalache (symbolic checker) on /verif/spec/<module>.tla: --init / --inv / --length.  Returns dict(ok, wall).
    A failure is a failure of the specification (stage A), i.e. exit 2 - never a verdict about peptacular."""
    t0 = time.time()
    out_dir = workdir() / "apalache"
    p = subprocess.run(["apalache-mc", "check", f"--init={init}", f"--inv={inv}", f"--length={length}",
                        f"--out-dir={out_dir}", f"{module}.tla"], cwd=str(SPEC), capture_output=True, text=True,
                       timeout=timeout)
    no_error = "The outcome is: NoError" in p.stdout
    found = "The outcome is: Error" in p.stdout
    ok = found if expect_error else no_error
    if not ok:
        sys.stdout.write(p.stdout[-3000:])
        die_machinery(f"apalache {module} --init={init} --inv={inv} --length={length}: "
                      f"{'no counterexample although one was expected' if expect_error else 'not proved'}")
    shutil.rmtree(out_dir, ignore_errors=True)
    return {"ok": True, "wall": time.time() - t0, "states": 0, "distinct": 0}


def pmap(fn, items, procs: int = 16, chunksize: int = 8) -> list:
    """Run fn over items in forked worker processes (order preserved). fn must be a module-level function."""
    import multiprocessing as mp
    items = list(items)
    if len(items) < 4 * procs:
        return [fn(x) for x in items]
    with mp.get_context("fork").Pool(procs) as pool:
        return pool.map(fn, items, chunksize=chunksize)


def load_known() -> list:
    if KNOWN.exists():
        return json.loads(KNOWN.read_text())["findings"]
    return []


def enabled_devs(prop: str) -> list:
    return [f["deviation"] for f in load_known() if f["property"] == prop and f["status"] == "open"]


def validate_traces(module: str, events: list, prop: str, shards: int = 16, per_shard_max: int = 20000,
                    cfg: str | None = None, xmx: str = "3g", timeout: int = 3600, devs: list | None = None,
                    min_per_shard: int = 200, by: str | None = None) -> dict:
    """Stage C. Shard events, run the trace spec under TLC (one JVM per shard, -workers 1), collect verdicts.

    Returns dict(n, ok, known: {dev: [tids]}, violations: [(tid, clause...)], states, distinct).
    Every event must carry a unique "tid".
    """
    if devs is None:
        devs = enabled_devs(prop)
    n = len(events)
    if n == 0:
        return dict(n=0, ok=0, known={}, violations=[], states=0, distinct=0, wall=0.0)
    nsh = max(1, min(shards, (n + min_per_shard - 1) // min_per_shard))
    nsh = max(nsh, (n + per_shard_max - 1) // per_shard_max)
    if by is None:
        chunks = [events[i::nsh] for i in range(nsh)]
    else:   # keep the events of one history together and in order
        chunks = [[] for _ in range(nsh)]
        keys = {}
        for e in events:
            k = keys.setdefault(e[by], len(keys) % nsh)
            chunks[k].append(e)
        chunks = [c for c in chunks if c]
        nsh = len(chunks)
    wd = workdir()
    files = []
    for i, ch in enumerate(chunks):
        f = wd / f"trace_{module}_{prop}_{i}_{time.time_ns()}.json"
        with open(f, "w") as fh:
            json.dump({"devs": devs, "events": ch}, fh, separators=(",", ":"))
        files.append(f)
    t0 = time.time()
    res = dict(n=n, ok=0, known={}, violations=[], states=0, distinct=0)

    def one(i):
        return _tlc(module, cfg or f"{module}.cfg", env={"TRACE_FILE": str(files[i])}, workers=1, xmx=xmx,
                    timeout=timeout, tag=f"tr{i}")

    with cf.ThreadPoolExecutor(max_workers=min(16, nsh)) as ex:
        outs = list(ex.map(one, range(nsh)))
    for i, r in enumerate(outs):
        tot = None
        for t in printed_tuples(r["out"]):
            if t[0] == "VERDICT":
                _, tid, verdict, *clause = t
                if len(clause) == 2 and clause[1] == []:
                    clause = clause[:1]
                if verdict.startswith("known:"):
                    res["known"].setdefault(verdict[6:], []).append(tid)
                elif verdict == "violation":
                    res["violations"].append((tid, clause))
            elif t[0] == "TOTAL":
                tot = t
            elif t[0] == "OUT":
                res.setdefault("outs", []).append(t[1:])
        if tot is None or r["rc"] != 0 or "Model checking completed. No error has been found." not in r["out"]:
            sys.stdout.write(r["out"][-5000:])
            die_machinery(f"trace validation {module} shard {i} did not complete (rc={r['rc']}); file kept: "
                          f"{_keep(files[i])}")
        _, n_ev, n_ok, n_known, n_viol = tot[:5]
        if n_ev != len(chunks[i]):
            die_machinery(f"trace {module} shard {i}: consumed {n_ev} of {len(chunks[i])} events")
        res["ok"] += n_ok
        res["states"] += r["states"]
        res["distinct"] += r["distinct"]
    nk = sum(len(v) for v in res["known"].values())
    if res["ok"] + nk + len(res["violations"]) != n:
        die_machinery(f"verdict count mismatch: ok={res['ok']} known={nk} viol={len(res['violations'])} n={n}")
    for f in files:
        f.unlink(missing_ok=True)
    res["wall"] = time.time() - t0
    return res


def _keep(f: Path) -> str:
    REPLAYS.mkdir(exist_ok=True)
    dst = REPLAYS / f.name
    shutil.copy(f, dst)
    return str(dst)


def generate(module: str, cfg: str | None = None, env: dict | None = None, workers: int | str = 1,
             timeout: int = 3600, extra: list | None = None, xmx: str = "4g") -> tuple[list, dict]:
    """Stage B: run a Gen_* model; return the CASE tuples it printed and TLC's stats."""
    r = _tlc(module, cfg or f"{module}.cfg", env=env, workers=workers, timeout=timeout, extra=extra, xmx=xmx,
             tag="gen")
    if r["rc"] != 0:
        sys.stdout.write(r["out"][-5000:])
        die_machinery(f"generator {module} failed rc={r['rc']}")
    cases = [t[1:] for t in printed_tuples(r["out"]) if t[0] == "CASE"]
    return cases, r


class Report:
    """Accumulates what one check run did and turns it into stdout lines, an evidence file and an exit code."""

    def __init__(self, prop: str, tier: str, seed: int):
        self.prop, self.tier, self.seed = prop, tier, seed
        self.t0 = time.time()
        self.states = 0
        self.transitions = 0
        self.events = 0
        self.traces = 0
        self.sigs = set()
        self.samples = []
        self.violations = []   # (tid, clause, event)
        self.known = {}        # dev -> list of tids
        self.parts = {}
        self.assumptions = []
        self.mc_runs = []

    def add_mc(self, name: str, r: dict):
        self.states += r["distinct"]
        self.transitions += r["states"]
        self.mc_runs.append(dict(model=name, states_generated=r["states"], distinct_states=r["distinct"],
                                 wall_s=round(r["wall"], 1)))

    def add_trace(self, name: str, events: list, res: dict, sig=None, traces: int | None = None):
        self.events += res["n"]
        self.traces += traces if traces is not None else res["n"]
        self.states += res["distinct"]
        self.transitions += res["states"]
        byid = {e["tid"]: e for e in events}
        for tid, clause in res["violations"]:
            self.violations.append((tid, clause, byid.get(tid)))
        for d, tids in res["known"].items():
            self.known.setdefault(d, []).extend((t, byid.get(t)) for t in tids)
        if sig is not None:
            for e in events:
                self.sigs.add(sig(e))
        self.parts[name] = dict(events=res["n"], ok=res["ok"],
                                known=sum(len(v) for v in res["known"].values()),
                                violations=len(res["violations"]), wall_s=round(res["wall"], 1))
        if events:
            for e in (events[0], events[len(events) // 2], events[-1]):
                if len(self.samples) < 9:
                    self.samples.append(_clip(e))

    def finish(self, rule: str, exhaustive: bool = False, extra: dict | None = None) -> int:
        if getattr(self, "rule_extra", ""):
            rule = rule + " Also: " + self.rule_extra
        EVID.mkdir(exist_ok=True)
        known = {f["deviation"]: f for f in load_known()}
        for d, items in sorted(self.known.items()):
            f = known.get(d, {})
            print(f"KNOWN-FINDING: property={self.prop} {d}: {f.get('what', '?')} "
                  f"[{len(items)} event(s), e.g. {_short(items[0][1])}]")
        rc = 0
        seen = set()
        for tid, clause, ev in self.violations:
            key = (tuple(map(str, clause)), (ev or {}).get("k"))
            path = ""
            if len(seen) < 20 and key not in seen:
                REPLAYS.mkdir(exist_ok=True)
                path = REPLAYS / f"{self.prop}_{re.sub(r'[^A-Za-z0-9_.-]', '_', str(tid))}.json"
                path.write_text(json.dumps({"property": self.prop, "clause": clause, "event": ev}, indent=1))
                print(f"VIOLATION property={self.prop} replay={path}  clause={clause} event={_short(ev)}")
            seen.add(key)
            rc = 1
        if self.violations and len(self.violations) > len(seen):
            print(f"({len(self.violations)} violating events in {len(seen)} distinct clause groups)")
        cov = dict(states=max(self.states, 1), transitions=max(self.transitions, 1),
                   traces_validated_against_impl=self.traces, events_validated=self.events,
                   evaluations=max(self.events, 1),
                   distinct_nontrivial=len(self.sigs), rule=rule,
                   samples=self.samples[:9] or ["(none)"], exhaustive=exhaustive,
                   model_checking_runs=self.mc_runs, parts=self.parts,
                   known_findings={d: len(v) for d, v in self.known.items()})
        if extra:
            cov.update(extra)
        ev = dict(property_id=self.prop, tier=self.tier, seed=self.seed, level="model_checking", coverage=cov,
                  assumptions=self.assumptions + [
                      "TLC 1.8 evaluates the TLA+ operators of /verif/spec correctly",
                      "harness/project.py maps Python values to the abstract state faithfully (fixed, knowledge-free mapping)"],
                  wall_s=round(time.time() - self.t0, 2), violations=len(self.violations))
        out_dir = EVID if not self.prop.startswith("X") else VERIF / "extras"    # X..: not a listed property
        out_dir.mkdir(exist_ok=True)
        if not os.environ.get("VERIF_NO_EVIDENCE"):
            (out_dir / f"{self.prop}.json").write_text(json.dumps(ev, indent=1, default=str))
        print(f"{self.prop} {self.tier}: events={self.events} ok={self.events - len(self.violations) - sum(len(v) for v in self.known.values())} "
              f"known={sum(len(v) for v in self.known.values())} violations={len(self.violations)} "
              f"states={self.states} wall={time.time() - self.t0:.1f}s")
        return rc


def _clip(e, limit=1500):
    s = json.dumps(e, default=str)
    if len(s) <= limit:
        return e
    return {"clipped": s[:limit]}


def _short(e, limit=300):
    s = json.dumps(e, default=str, separators=(",", ":"))
    return s if len(s) <= limit else s[:limit] + "…"
