"""The call table of the Session specification (spec/Session.tla has the same names and classes).

Each entry: name -> (cls, fn) with cls in
   "Q"  query: must not change any argument nor process-wide state; result = same call on a fresh object
   "E"  explicit editor of the shared annotation (effect given by Session!Effect)
fn(pp, a, aux) performs the call on the shared annotation `a`; `aux` is a dict of auxiliary mutable arguments
(lists / dicts) that are also tracked.  Arguments are fixed small values: the point is the history, not the inputs.
"""
from __future__ import annotations


def _mods(pp):
    from peptacular.proforma.proforma_dataclasses import Mod
    return Mod


def _reload_mono(pp):
    import os
    from peptacular.mods import mod_db_setup as m
    m.MONOSACCHARIDES_DB.reload_from_file(os.path.join(os.path.dirname(m.__file__), "..", "data", "monosaccharides_updated.obo"))
    return len(m.MONOSACCHARIDES_DB)


def table():
    T = {}

    def q(name):
        def deco(fn):
            T[name] = ("Q", fn)
            return fn
        return deco

    def e(name):
        def deco(fn):
            T[name] = ("E", fn)
            return fn
        return deco

    # ------------------------------------------------------------------ queries: module level
    q("serialize")(lambda pp, a, x: pp.serialize(a))
    q("serialize_plus")(lambda pp, a, x: pp.serialize(a, True))
    q("sequence_length")(lambda pp, a, x: pp.sequence_length(a))
    q("is_ambiguous")(lambda pp, a, x: pp.is_ambiguous(a))
    q("is_modified")(lambda pp, a, x: pp.is_modified(a))
    q("get_mods")(lambda pp, a, x: pp.get_mods(a))
    q("pop_mods_fn")(lambda pp, a, x: pp.pop_mods(a))
    q("strip_mods")(lambda pp, a, x: pp.strip_mods(a))
    q("reverse_fn")(lambda pp, a, x: pp.reverse(a))
    q("reverse_fn_swap")(lambda pp, a, x: pp.reverse(a, swap_terms=True))
    q("shuffle_fn_seed")(lambda pp, a, x: pp.shuffle(a, seed=7))
    q("shift_fn")(lambda pp, a, x: pp.shift(a, 1))
    q("sort_fn")(lambda pp, a, x: pp.sort(a))
    q("span_to_sequence")(lambda pp, a, x: pp.span_to_sequence(a, (0, 2, 0)))
    q("split_fn")(lambda pp, a, x: pp.split(a))
    q("count_residues_fn")(lambda pp, a, x: pp.count_residues(a))
    q("count_aa")(lambda pp, a, x: pp.count_aa(a))
    q("is_subsequence_fn")(lambda pp, a, x: pp.is_subsequence("PE", a))
    q("is_subsequence_unordered")(lambda pp, a, x: pp.is_subsequence("EP", a, order=False))
    q("find_subsequence_indices")(lambda pp, a, x: pp.find_subsequence_indices(a, "P"))
    q("find_subsequence_indices_ignore")(lambda pp, a, x: pp.find_subsequence_indices(a, "P", ignore_mods=True))
    q("coverage")(lambda pp, a, x: pp.coverage(a, x["subseqs"]))
    q("percent_coverage")(lambda pp, a, x: pp.percent_coverage(a, x["subseqs"], ignore_mods=True))
    q("is_sequence_valid")(lambda pp, a, x: pp.is_sequence_valid(a))
    q("condense_static_mods_fn")(lambda pp, a, x: pp.condense_static_mods(a))
    q("condense_to_mass_mods")(lambda pp, a, x: pp.condense_to_mass_mods(a))
    q("permutations_fn")(lambda pp, a, x: pp.permutations(a, 2))
    q("product_fn")(lambda pp, a, x: pp.product(a, 2))
    q("combinations_fn")(lambda pp, a, x: pp.combinations(a, 2))
    q("combinations_wr_fn")(lambda pp, a, x: pp.combinations_with_replacement(a, 2))
    q("apply_static_mods")(lambda pp, a, x: pp.apply_static_mods(a, {"P": [_mods(pp)("Oxidation", 1)]}))
    q("apply_variable_mods")(lambda pp, a, x: pp.apply_variable_mods(a, {"P": [[_mods(pp)("Oxidation", 1)]]}, 1))
    q("mass")(lambda pp, a, x: pp.mass(a))
    q("mass_avg")(lambda pp, a, x: pp.mass(a, monoisotopic=False))
    q("mass_b2")(lambda pp, a, x: pp.mass(a, charge=2, ion_type="b"))
    q("mz")(lambda pp, a, x: pp.mz(a, charge=2))
    q("comp")(lambda pp, a, x: pp.comp(a, estimate_delta=True))
    q("comp_mass")(lambda pp, a, x: pp.comp_mass(a))
    q("fragment_b")(lambda pp, a, x: pp.fragment(a, "b", 1))
    q("fragment_by_mass")(lambda pp, a, x: pp.fragment(a, ["b", "y"], [1, 2], return_type="mass"))
    q("fragment_losses")(lambda pp, a, x: pp.fragment(a, "y", 1, water_loss=True, losses=x["losses"], return_type="mz-label"))
    q("fragment_internal")(lambda pp, a, x: pp.fragment(a, "by", 1, return_type="label"))
    q("fragmenter")(lambda pp, a, x: pp.Fragmenter(a).fragment("b", 1, return_type="mass"))
    q("digest_trypsin")(lambda pp, a, x: pp.digest(a, "trypsin/P", return_type="str-span"))
    q("digest_semi")(lambda pp, a, x: pp.digest(a, ["lys-c", "glu-c"], missed_cleavages=1, semi=True))
    q("digest_nonspecific")(lambda pp, a, x: pp.digest(a, "non-specific", max_len=2, return_type="annotation"))
    q("digest_from_config")(lambda pp, a, x: pp.digest_from_config(a, pp.EnzymeConfig(regex=x["regexes"])))
    q("sequential_digest")(lambda pp, a, x: pp.sequential_digest(a, [pp.EnzymeConfig(regex=["(?<=K)"]), pp.EnzymeConfig(regex=["(?<=E)"])]))
    q("get_cleavage_sites")(lambda pp, a, x: pp.get_cleavage_sites(a, "glu-c"))
    q("get_left_semi")(lambda pp, a, x: pp.get_left_semi_enzymatic_sequences(a))
    q("get_non_enzymatic")(lambda pp, a, x: pp.get_non_enzymatic_sequences(a, max_len=2))
    # ------------------------------------------------------------------ queries: methods
    q("m_serialize")(lambda pp, a, x: a.serialize())
    q("m_serialize_parts")(lambda pp, a, x: (a.serialize_start(), a.serialize_middle(), a.serialize_end()))
    q("m_dict")(lambda pp, a, x: a.dict())
    q("m_mod_dict")(lambda pp, a, x: a.mod_dict())
    q("m_copy")(lambda pp, a, x: a.copy())
    q("m_strip")(lambda pp, a, x: a.strip())
    q("m_slice")(lambda pp, a, x: a.slice(1, 3))
    q("m_shift")(lambda pp, a, x: a.shift(2))
    q("m_shuffle_seed")(lambda pp, a, x: a.shuffle(seed=3))
    q("m_reverse")(lambda pp, a, x: a.reverse())
    q("m_reverse_swap")(lambda pp, a, x: a.reverse(swap_terms=True))
    q("m_slice_prefix")(lambda pp, a, x: a.slice(0, 3))
    q("m_slice_suffix")(lambda pp, a, x: a.slice(2, None))
    q("m_shift_zero")(lambda pp, a, x: a.shift(0))
    q("digest_annotations")(lambda pp, a, x: pp.digest(a, "trypsin/P", missed_cleavages=1, return_type="annotation"))
    q("fragment_objects_seq")(lambda pp, a, x: [f.sequence for f in pp.fragment(a, ["b", "y"], 1)])
    q("m_sort")(lambda pp, a, x: a.sort_residues())
    q("m_split")(lambda pp, a, x: a.split())
    q("m_count_residues")(lambda pp, a, x: a.count_residues())
    q("m_condense_static")(lambda pp, a, x: a.condense_static_mods())
    q("m_is_subsequence")(lambda pp, a, x: pp.parse("PE").is_subsequence(a))
    q("m_find_indices")(lambda pp, a, x: pp.parse("E").find_indices(a))
    q("m_permutations")(lambda pp, a, x: a.permutations(2))
    q("m_product")(lambda pp, a, x: a.product(1))
    q("m_combinations")(lambda pp, a, x: a.combinations(2))
    q("m_combinations_wr")(lambda pp, a, x: a.combinations_with_replacement(1))
    q("m_predicates")(lambda pp, a, x: (a.contains_sequence_ambiguity(), a.contains_residue_ambiguity(), a.has_mods(),
                                        a.count_internal_mods(), a.count_modified_residues(), len(a), repr(a), a == a.copy()))
    q("m_get_internal")(lambda pp, a, x: a.get_internal_mods_by_index(0))
    # ------------------------------------------------------------------ queries on other containers
    q("mod_mass_list")(lambda pp, a, x: pp.mod_mass(x["modlist"]))
    q("chem_mass_dict")(lambda pp, a, x: pp.chem_mass(x["compdict"]))
    q("write_chem_formula")(lambda pp, a, x: pp.write_chem_formula(x["compdict"], hill_order=True))
    q("glycan_comp_dict")(lambda pp, a, x: pp.glycan_comp(x["glycandict"]))
    q("isotopic_distribution")(lambda pp, a, x: pp.isotopic_distribution(x["compdict"], max_isotopes=3, precision=4))
    q("estimate_comp")(lambda pp, a, x: pp.estimate_comp(1000.5, x["isomods"]))
    q("apply_isotope_mods_to_composition")(lambda pp, a, x: pp.apply_isotope_mods_to_composition(x["compdict"], x["isomods"]))
    q("get_losses")(lambda pp, a, x: sorted(pp.fragmentation.get_losses("PEST", x["losses"], 2)))
    q("get_matched_indices")(lambda pp, a, x: pp.get_matched_indices(x["theo"], x["obs"], 0.5, "th"))
    q("match_spectra")(lambda pp, a, x: pp.match_spectra(x["theo"], x["obs"], 0.5, "th", "largest", x["inten"]))
    q("get_fragment_matches")(lambda pp, a, x: pp.get_fragment_matches(x["frags"], x["obs_unsorted"], x["inten"], 0.5, "th", "all"))
    q("merge_isotopic_distributions")(lambda pp, a, x: pp.merge_isotopic_distributions(x["dist1"], x["dist2"]))
    q("parse_static_mods")(lambda pp, a, x: pp.proforma.proforma_parser.parse_static_mods(x["staticlist"]))
    q("fix_list_of_mods")(lambda pp, a, x: pp.proforma.input_convert.fix_list_of_mods(x["rawmods"]))
    q("create_annotation")(lambda pp, a, x: pp.create_annotation("PEPTIDE", nterm_mods=x["modlist"], internal_mods=x["internaldict"]))
    q("create_annotation_intervals")(lambda pp, a, x: pp.create_annotation("PEPTIDE", intervals=x["intervallist"]))
    q("apply_variable_mods_zero")(lambda pp, a, x: pp.apply_variable_mods(a, {"P": [[_mods(pp)("Oxidation", 1)]]}, 0,
                                                                             return_type="annotation"))
    q("mass_isotope_mods_arg")(lambda pp, a, x: pp.mass(a, isotope_mods=["13C"]))
    q("comp_isotope_mods_arg")(lambda pp, a, x: pp.comp(a, estimate_delta=True, isotope_mods=x["isomods"]))
    q("mz_isotope_mods_arg")(lambda pp, a, x: pp.mz(a, charge=2, isotope_mods=["15N"]))
    q("digest_enzyme_names")(lambda pp, a, x: pp.digest(a, x["enzymes"], missed_cleavages=1))
    q("digest_config_names")(lambda pp, a, x: pp.digest_from_config(a, x["config"]))
    q("sequential_digest_configs")(lambda pp, a, x: pp.sequential_digest(a, x["configs"]))
    q("fragment_b_avg_mass")(lambda pp, a, x: pp.fragment(a, "b", 1, monoisotopic=False, return_type="mass"))
    q("fragment_y_mono_mass")(lambda pp, a, x: pp.fragment(a, "y", [1, 2], monoisotopic=True, return_type="mass"))
    q("fragment_objects")(lambda pp, a, x: pp.fragment(a, ["b", "y"], 1))
    q("fragmenter_object")(lambda pp, a, x: pp.Fragmenter(a))
    q("write_chem_formula_precision")(lambda pp, a, x: pp.write_chem_formula(x["fraccomp"], precision=2, hill_order=False))
    q("write_chem_formula_unsorted")(lambda pp, a, x: pp.write_chem_formula(x["fraccomp"], hill_order=False))
    q("chem_mass_fractional")(lambda pp, a, x: pp.chem_mass(x["fraccomp"]))
    q("condense_to_mass_mods_precise")(lambda pp, a, x: pp.condense_to_mass_mods(a, include_plus=True, precision=3))
    q("create_multi_annotation")(lambda pp, a, x: pp.create_multi_annotation([a] + x["chains"], x["links"]))
    # a text is immutable, so with a text add_mods is a function of (text, dictionary): the dictionary is only read
    q("add_mods_text_dict")(lambda pp, a, x: pp.add_mods("PEPTIDE", x["moddict"]))
    # the caller's Fragment object, iterated (what dict(fragment) and to_dict() do): the same items every time
    q("fragment_iterated")(lambda pp, a, x: list(x["frags"][0]))
    # reading a vocabulary again from the file it came from leaves it what it was (names, synonyms, masses)
    q("reload_monosaccharides")(lambda pp, a, x: _reload_mono(pp))
    q("parse_text")(lambda pp, a, x: pp.parse("[Acetyl]-PEP[1]TIDE/2"))
    # ------------------------------------------------------------------ queries whose arguments are immutable texts:
    # their answers can only depend on hidden process-wide state (caches, lazily completed tables)
    q("t_parse_chem_formula")(lambda pp, a, x: pp.parse_chem_formula("C2H4"))
    q("t_chem_mass")(lambda pp, a, x: pp.chem_mass("C2H4"))
    q("t_mod_comp")(lambda pp, a, x: pp.mod_comp("Acetyl"))
    q("t_mod_mass_avg_rounded")(lambda pp, a, x: pp.mod_mass("XLMOD:01000", monoisotopic=False, precision=1))
    q("t_mod_mass_avg")(lambda pp, a, x: pp.mod_mass("XLMOD:01000", monoisotopic=False))
    q("t_mod_mass_psi")(lambda pp, a, x: (pp.mod_mass("MOD:00046"), pp.mod_mass("MOD:00046", monoisotopic=False)))
    q("t_comp_labelled_formula")(lambda pp, a, x: pp.comp("<13C>PEK[Formula:C2H4]"))
    q("t_comp_formula")(lambda pp, a, x: pp.comp("PEK[Formula:C2H4]"))
    q("t_mass_formula")(lambda pp, a, x: (pp.mass("PEK[Formula:C2H4]"), pp.mass("PEK[Formula:C2H4]", monoisotopic=False)))
    q("t_apply_isotope_mods")(lambda pp, a, x: pp.apply_isotope_mods_to_composition("C2H4", ["13C"]))
    q("t_glycan_comp")(lambda pp, a, x: pp.glycan_comp("HexNAc2Hex3"))
    q("t_mass_names")(lambda pp, a, x: (pp.mass("PEM[Oxidation]K"), pp.mass("PEM[Oxidation]K", monoisotopic=False, precision=2),
                                         pp.mass("PEM[U:35]K")))
    q("t_fragment_text")(lambda pp, a, x: pp.fragment("PEM[Oxidation]K", ["b", "y"], 1, return_type="mass"))
    q("t_add_mods_text")(lambda pp, a, x: pp.add_mods("PEP[1]TIDE", {"nterm": "Acetyl", 0: "Oxidation"}))
    q("t_get_mods_text")(lambda pp, a, x: pp.get_mods("PEP[1]TIDE"))
    q("t_glycan_synonym")(lambda pp, a, x: (pp.mod_mass("Glycan:NeuAc2dHex"), pp.glycan_comp("dHex")))
    q("t_digest_text")(lambda pp, a, x: pp.digest("PEKTIDERK", "trypsin", missed_cleavages=1))
    # ------------------------------------------------------------------ editors of the shared annotation
    e("pop_labile_mods")(lambda pp, a, x: a.pop_labile_mods())
    e("pop_nterm_mods")(lambda pp, a, x: a.pop_nterm_mods())
    e("pop_charge")(lambda pp, a, x: a.pop_charge())
    e("add_nterm_mods_append")(lambda pp, a, x: a.add_nterm_mods([_mods(pp)("Acetyl", 1)], append=True))
    e("add_internal_mod_append")(lambda pp, a, x: a.add_internal_mod(1, [_mods(pp)(1.5, 1)], append=True))
    e("set_charge")(lambda pp, a, x: setattr(a, "charge", 3))
    e("strip_inplace")(lambda pp, a, x: a.strip(inplace=True))
    e("reverse_inplace")(lambda pp, a, x: a.reverse(inplace=True))
    e("condense_static_inplace")(lambda pp, a, x: a.condense_static_mods(inplace=True))
    return T


def aux(pp):
    """Fresh auxiliary mutable arguments (rebuilt for every history)."""
    from peptacular.proforma.proforma_dataclasses import Mod
    from peptacular.fragmentation import Fragment

    def frag(end, mz):
        return Fragment(charge=1, ion_type="b", start=0, end=end, monoisotopic=True, isotope=0, loss=0.0,
                        parent_sequence="AAAAAA", mass=mz, neutral_mass=mz, mz=mz, sequence="A" * end,
                        unmod_sequence="A" * end, internal=False)
    return {
        "subseqs": ["PE", "K"], "losses": [("[ST]", -97.9769)], "regexes": ["(?<=K)", "(?<=D)"],
        "modlist": [Mod("Oxidation", 2), Mod(1.5, 1)], "compdict": {"C": 6, "H": 12, "O": 6, "N": 0, "e": -1},
        "glycandict": {"Hex": 2, "HexNAc": 1}, "isomods": ["13C", "15N"],
        "theo": [100.0, 101.25, 105.0], "obs": [99.75, 100.0, 100.5, 104.75], "obs_unsorted": [104.75, 99.75, 100.5, 100.0],
        "inten": [5.0, 9.0, 2.0, 7.0], "frags": [frag(3, 105.0), frag(1, 100.0), frag(2, 101.25)],
        "dist1": [(100.0, 0.5), (101.0, 0.25)], "dist2": [(100.0, 0.25), (102.0, 0.125)],
        "staticlist": [Mod("[Oxidation]@M", 1)], "rawmods": ["Oxidation", 1.5, Mod("Acetyl", 1)],
        "internaldict": {0: [Mod("Phospho", 1)]},
        "intervallist": [pp.Interval(1, 3, False, [Mod("Phospho", 1)])],
        "moddict": {"nterm": "Acetyl", 0: "Oxidation", 3: [1.5], "charge": 2},
        "chains": [pp.parse("TIDE[1]")], "links": [True],
        "fraccomp": {"C": 2.123456, "H": 4.5, "O": 1, "e": -0.25},
        "enzymes": ["trypsin/P", "asp-n"], "config": pp.EnzymeConfig(regex=["lys-c", "(?<=D)"]),
        "configs": [pp.EnzymeConfig(regex=["trypsin/P"]), pp.EnzymeConfig(regex=["glu-c", "asp-n"], missed_cleavages=1)],
    }
