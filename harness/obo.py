"""Independent, minimal reader of the bundled OBO vocabularies (id, name, tabulated masses, tabulated composition).
It shares no code with peptacular's own loader (mods/mod_db_setup.py).  Rows travel inside trace events; the TLA+
specification judges what the library makes of each row."""
from __future__ import annotations

import os
import re

DATA = "/repo/src/peptacular/data"


def _terms(path):
    cur = None
    with open(path, encoding="utf-8") as fh:
        for line in fh:
            line = line.rstrip("\n")
            if line.startswith("["):
                if cur is not None:
                    yield cur
                cur = {"_kind": line.strip()} if line.strip() == "[Term]" else None
                continue
            if cur is None or ":" not in line:
                continue
            k, v = line.split(":", 1)
            cur.setdefault(k.strip(), []).append(v.strip())
    if cur is not None:
        yield cur


def _xref(term, key):
    for x in term.get("xref", []):
        m = re.match(r'%s:?\s+"(.*)"' % re.escape(key), x)
        if m:
            return m.group(1)
    return None


def _pairs_unimod(s):
    """'H(2) C(2) O 13C(6)' -> [[sym, count]...] (tokens may be sugars such as Hex, HexNAc)."""
    out = []
    for tok in (s or "").split():
        m = re.match(r"^([0-9]*[A-Za-z]+)(?:\((-?\d+)\))?$", tok)
        if not m:
            return None
        out.append([m.group(1), int(m.group(2) or 1)])
    return out


def _pairs_psi(s):
    """'C 0 H 1 N 0 O 3 P 1' or '(13)C 6 ...' -> pairs"""
    toks = (s or "").split()
    if len(toks) % 2:
        return None
    out = []
    for i in range(0, len(toks), 2):
        sym = toks[i]
        m = re.match(r"^\((\d+)\)([A-Za-z]+)$", sym)
        if m:
            sym = m.group(1) + m.group(2)
        try:
            c = int(toks[i + 1])
        except ValueError:
            return None
        if c:
            out.append([sym, c])
    return out


def _f(x):
    try:
        return float(x)
    except (TypeError, ValueError):
        return None


def unimod():
    rows = []
    for t in _terms(os.path.join(DATA, "unimod.obo")):
        i = t["id"][0]
        if i == "UNIMOD:0":
            continue
        rows.append({"db": "unimod", "id": i.split(":")[1], "name": t["name"][0],
                     "mono": _f(_xref(t, "delta_mono_mass")), "avg": _f(_xref(t, "delta_avge_mass")),
                     "comp": _pairs_unimod(_xref(t, "delta_composition"))})
    return rows


def psimod():
    rows = []
    for t in _terms(os.path.join(DATA, "psi-mod.obo")):
        i = t["id"][0]
        if not i.startswith("MOD:") or t.get("is_obsolete", ["false"])[0] == "true":
            continue
        rows.append({"db": "psimod", "id": i.split(":")[1], "name": t["name"][0],
                     "mono": _f(_xref(t, "DiffMono")), "avg": _f(_xref(t, "DiffAvg")),
                     "comp": _pairs_psi(_xref(t, "DiffFormula")) if _xref(t, "DiffFormula") not in (None, "none") else None})
    return rows


def xlmod():
    rows = []
    for t in _terms(os.path.join(DATA, "xlmod.obo")):
        i = t["id"][0]
        if not i.startswith("XLMOD:") or t.get("is_obsolete", ["false"])[0] == "true":
            continue
        mono = None
        for pv in t.get("property_value", []):
            m = re.match(r'monoIsotopicMass:?\s+"([^"]*)"', pv)
            if m:
                mono = _f(m.group(1))
        rows.append({"db": "xlmod", "id": i.split(":")[1], "name": t["name"][0], "mono": mono, "avg": None, "comp": None})
    return rows


def monosaccharides():
    rows = []
    for t in _terms(os.path.join(DATA, "monosaccharides_updated.obo")):
        rows.append({"db": "mono", "id": t["id"][0], "name": t["name"][0], "raw": t})
    return rows
