"""C06 driver: digestion returns exactly the peptides the cleavage rules define.

Generates inputs (no expectations), calls the real peptacular functions, projects results; the verdicts come
from spec/Trace_Digest.tla (reference layer spec/Digest.tla).
"""
from __future__ import annotations

import itertools
import random
import warnings

from harness import core
from harness.project import call, chars

LETTERS6 = "KRPDEA"
ALL_RES = "ACDEFGHIKLMNPQRSTVWYUO"
PROTEASES = ["arg-c", "asp-n", "chymotrypsin", "chymotrypsin/P", "promega-chymotrypsin-high-specificity",
             "promega-chymotrypsin-low-specificity", "glu-c", "lys-c", "lys-n", "proteinase k", "trypsin",
             "trypsin/P", "proalanase", "elastase", "pepsin", "thermolysin", "proalanase-low-specificity",
             "non-specific", "no-cleave"]


def named(name):
    return {"name": name, "style": "", "before": [], "beforeNot": [], "after": [], "afterNot": [], "notAfter": [],
            "lit": []}


def zero(before=(), beforeNot=(), after=(), afterNot=(), notAfter=()):
    return {"name": "", "style": "zero", "before": list(before), "beforeNot": list(beforeNot), "after": list(after),
            "afterNot": list(afterNot), "notAfter": list(notAfter), "lit": []}


def consuming(lit):
    return {"name": "", "style": "consuming", "before": [], "beforeNot": [], "after": [], "afterNot": [],
            "notAfter": [], "lit": [list(x) for x in lit]}


def mixed(cut_after, cut_before):
    """One pattern, both styles as alternatives: '([KR])|(?=[D])' (disjoint letter classes)."""
    return {"name": "", "style": "mixed", "before": [], "beforeNot": [], "after": list(cut_before), "afterNot": [],
            "notAfter": [], "lit": [list(cut_after)]}


def render(rule) -> str:
    """Rule record -> the regex text handed to peptacular (input rendering, the inverse of nothing in the code)."""
    if rule["name"]:
        return rule["name"]
    if rule["style"] == "zero":
        s = ""
        if rule["before"]:
            s += "(?<=[%s])" % "".join(rule["before"])
        if rule["beforeNot"]:
            s += "(?<![%s])" % "".join(rule["beforeNot"])
        if rule["after"]:
            s += "(?=[%s])" % "".join(rule["after"])
        if rule["afterNot"]:
            s += "(?=[^%s])" % "".join(rule["afterNot"])
        if rule["notAfter"]:
            s += "(?![%s])" % "".join(rule["notAfter"])
        return s
    if rule["style"] == "consuming":
        parts = []
        for cls in rule["lit"]:
            parts.append(cls[0] if len(cls) == 1 else "[%s]" % "".join(cls))
        body = "".join(parts)
        return "(%s)" % body if len(rule["lit"]) == 1 else body
    if rule["style"] == "mixed":
        return "([%s])|(?=[%s])" % ("".join(rule["lit"][0]), "".join(rule["after"]))
    raise ValueError(rule)


USER_RULES = [
    zero(before="KR"), zero(after="D"), zero(before="KR", afterNot="P"), zero(before="KR", notAfter="P"),
    zero(beforeNot="P", after="K"), zero(before="E", after="A"), zero(notAfter="KR", before="DE"),
    consuming(["KR"]), consuming(["P", "P"]), consuming(["K", "DE"]), consuming(["D"]),
    mixed("KR", "D"), mixed("E", "KA"),
]


def _sites_events(pp, strings, rules, tag):
    evs = []
    for si, s in enumerate(strings):
        for ri, r in enumerate(rules):
            out, v = call(lambda: list(pp.get_cleavage_sites(s, render(r))))
            evs.append({"tid": f"{tag}.{si}.{ri}", "k": "sites", "seq": chars(s), "rule": r, "out": out[:3],
                        "res": v if out == "ret" else []})
    return evs


def _spans_events(pp, cases, tag):
    from peptacular.spans import build_spans
    evs = []
    for ci, (n, sites, mc, semi, mn, mx) in enumerate(cases):
        out, v = call(lambda: [list(x) for x in build_spans(n, list(sites), mc, mn, mx, semi)])
        evs.append({"tid": f"{tag}.{ci}", "k": "spans", "n": n, "sites": list(sites), "mc": mc,
                    "semi": int(semi), "mn": -1 if mn is None else mn, "mx": -1 if mx is None else mx,
                    "out": out[:3], "res": v if out == "ret" else []})
    return evs


def _proj_items(rt, res):
    items = []
    for x in res:
        if rt == "span":
            items.append({"span": list(x), "str": []})
        elif rt == "str":
            items.append({"span": [], "str": chars(x)})
        elif rt == "annotation":
            items.append({"span": [], "str": chars(x.serialize())})
        elif rt == "str-span":
            items.append({"span": list(x[1]), "str": chars(x[0])})
        elif rt == "annotation-span":
            items.append({"span": list(x[1]), "str": chars(x[0].serialize())})
    return items


RTS = ["str", "annotation", "span", "str-span", "annotation-span"]


def _digest_event(pp, tid, s, rules, mc, semi, mn, mx, complete, rt, sort, via):
    rx = [render(r) for r in rules]

    def f():
        if via == "digest":
            return list(pp.digest(s, rx if len(rx) > 1 else rx[0], mc, semi, mn, mx, complete, rt, sort))
        cfg = pp.EnzymeConfig(regex=rx if len(rx) > 1 else rx[0], missed_cleavages=mc, semi_enzymatic=semi,
                              complete_digestion=complete)
        return list(pp.digest_from_config(s, cfg, mn, mx, rt, sort))
    out, v = call(f)
    return {"tid": tid, "k": "digest", "via": via, "seq": chars(s), "rules": rules, "mc": mc, "semi": int(semi),
            "mn": -1 if mn is None else mn, "mx": -1 if mx is None else mx, "complete": int(complete), "rt": rt,
            "sort": int(sort), "out": out[:3], "res": _proj_items(rt, v) if out == "ret" else []}


def _seq_event(pp, tid, s, stages, mn, mx, rt):
    def f():
        cfgs = [pp.EnzymeConfig(regex=[render(r) for r in st], missed_cleavages=0, semi_enzymatic=False,
                                complete_digestion=True) for st in stages]
        res = list(pp.sequential_digest(s, cfgs, mn, mx, rt))
        # the configuration objects are the caller's: the first one is used again, for a plain digest
        again = call(lambda: list(pp.digest_from_config(s, cfgs[0], mn, mx, rt, False)))
        return res, again
    out, v = call(f)
    evs = [{"tid": tid, "k": "seqdigest", "seq": chars(s), "stages": stages,
            "rules": [r for st in stages for r in st], "mn": -1 if mn is None else mn,
            "mx": -1 if mx is None else mx, "rt": rt, "out": out[:3],
            "res": _proj_items(rt, v[0]) if out == "ret" else []}]
    if out == "ret":
        o2, v2 = v[1]
        evs.append({"tid": tid + ".cfg", "k": "digest", "via": "config_used_before", "seq": chars(s), "rules": stages[0], "stages": stages, "mc": 0,
                    "semi": 0, "mn": -1 if mn is None else mn, "mx": -1 if mx is None else mx, "complete": 1, "rt": rt,
                    "sort": 0, "out": o2[:3], "res": _proj_items(rt, v2) if o2 == "ret" else []})
    return evs


def strings_upto(alpha, n):
    for k in range(n + 1):
        for t in itertools.product(alpha, repeat=k):
            yield "".join(t)


def run(tier, seed, rep):
    warnings.simplefilter("ignore")
    import peptacular as pp
    rnd = random.Random(seed)
    thorough = tier == "thorough"
    all_rules = [named(p) for p in PROTEASES] + USER_RULES

    # stage A: the machine layer (grouped semi-span builder) refines the reference layer
    r = core.model_check("MC_Digest", "MC_Digest_thorough.cfg" if thorough else "MC_Digest.cfg")
    rep.add_mc("MC_Digest", r)

    # L1 sites: exhaustive short strings x every rule
    l1 = list(strings_upto(LETTERS6, 6 if thorough else 4))
    if not thorough:
        l1 += ["".join(rnd.choice(LETTERS6) for _ in range(5)) for _ in range(300)]
    l1 += ["".join(rnd.choice(ALL_RES) for _ in range(rnd.randint(1, 60))) for _ in range(2000 if thorough else 200)]
    ev1 = _sites_events(pp, l1, all_rules, "L1")
    res = core.validate_traces("Trace_Digest", ev1, "C06")
    rep.add_trace("L1_sites", ev1, res, sig=lambda e: ("sites", "".join(e["seq"])[:8], e["rule"]["name"] or render(e["rule"])))

    # L2 spans: exhaustive (n, site set, mc, semi, min, max)
    nmax = 7 if thorough else 5
    cases = []
    for n in range(0, nmax + 1):
        bounds = [None] + list(range(1, min(n, 6) + 2)) + [12]
        if n >= 6:
            bounds = [None, 1, 2, 3, 5, n, 12]
        for k in range(0, n + 2):
            for sites in itertools.combinations(range(n + 1), k):
                for mc in range(0, 5 if n <= 5 else 3):
                    for semi in (False, True):
                        for mn in bounds:
                            for mx in bounds:
                                cases.append((n, sites, mc, semi, mn, mx))
    if not thorough and len(cases) > 60000:
        cases = rnd.sample(cases, 60000)
    ev2 = _spans_events(pp, cases, "L2")
    res = core.validate_traces("Trace_Digest", ev2, "C06")
    rep.add_trace("L2_spans", ev2, res, sig=lambda e: ("spans", e["n"], tuple(e["sites"]), e["mc"], e["semi"], e["mn"], e["mx"]))

    # L3 front end
    ev3 = []
    prots = list(strings_upto(LETTERS6, 5 if thorough else 3))
    extra = ["".join(rnd.choice(LETTERS6) for _ in range(rnd.randint(4, 8))) for _ in range(3000 if thorough else 400)]
    extra += ["".join(rnd.choice(ALL_RES) for _ in range(rnd.randint(1, 60))) for _ in range(1500 if thorough else 200)]
    i = 0
    for s in prots + extra:
        reps = 3 if len(s) <= 5 else 2
        for _ in range(reps):
            nr = rnd.choice([1, 1, 2, 3])
            rules = [rnd.choice(all_rules) for _ in range(nr)]
            if rnd.random() < 0.15:
                rules = [named("lys-c"), named("lys-n")][:nr] if nr >= 2 else rules
            mc = rnd.choice([0, 0, 1, 2, 3, 4])
            semi = rnd.random() < 0.4
            mn = rnd.choice([None, None, 1, 2, 3, 6, 12])
            mx = rnd.choice([None, None, 1, 2, 4, 7, 12])
            complete = rnd.random() < 0.6
            rt = rnd.choice(RTS)
            sort = rnd.random() < 0.6
            via = rnd.choice(["digest", "digest", "config"])
            ev3.append(_digest_event(pp, f"L3.{i}", s, rules, mc, semi, mn, mx, complete, rt, sort, via))
            i += 1
        # sequential digest with complete zero-missed-cleavage stages
        nst = rnd.choice([1, 2, 2, 3])
        specific = [r for r in all_rules if r["name"] != "non-specific"]
        stages = [[rnd.choice(specific) for _ in range(rnd.choice([1, 1, 2]))] for _ in range(nst)]
        mn = rnd.choice([None, None, 1, 2, 3])
        mx = rnd.choice([None, None, 2, 4, 12])
        ev3.extend(_seq_event(pp, f"L3s.{i}", s, stages, mn, mx, rnd.choice(["span", "str-span", "annotation-span"])))
        i += 1
    res = core.validate_traces("Trace_Digest", ev3, "C06")
    rep.add_trace("L3_frontend", ev3, res,
                  sig=lambda e: (e["k"], "".join(e["seq"])[:10], tuple(render(r) for r in e["rules"]), e.get("mc"),
                                 e.get("semi"), e["mn"], e["mx"], e.get("complete"), e["rt"], e.get("sort")))
    return rep.finish(
        rule="L1: every string over {K,R,P,D,E,A} up to the tier's length x 19 named proteases + 11 user regexes "
             "(+ random proteins <=60 over all residues); L2: every (n, site set, missed cleavages, semi, min, max) "
             "up to the tier's n; L3: digest/digest_from_config/sequential_digest on short and random proteins with "
             "random rule sets and options, all five return types. distinct = distinct (input, options) signatures",
        exhaustive=False)


def replay(path):
    import json
    import peptacular as pp  # noqa
    ev = json.load(open(path))["event"]
    rep = core.Report("C06", "quick", 0)
    # re-run the recorded call against the real code
    warnings.simplefilter("ignore")
    if ev["k"] == "sites":
        new = _sites_events(pp, ["".join(ev["seq"])], [ev["rule"]], "R")
    elif ev["k"] == "spans":
        new = _spans_events(pp, [(ev["n"], ev["sites"], ev["mc"], bool(ev["semi"]), None if ev["mn"] < 0 else ev["mn"],
                                  None if ev["mx"] < 0 else ev["mx"])], "R")
    elif ev["k"] == "digest" and ev.get("via") == "config_used_before":
        new = _seq_event(pp, "R.0", "".join(ev["seq"]), ev["stages"], None if ev["mn"] < 0 else ev["mn"],
                         None if ev["mx"] < 0 else ev["mx"], ev["rt"])
    elif ev["k"] == "digest":
        new = [_digest_event(pp, "R.0", "".join(ev["seq"]), ev["rules"], ev["mc"], bool(ev["semi"]),
                             None if ev["mn"] < 0 else ev["mn"], None if ev["mx"] < 0 else ev["mx"],
                             bool(ev["complete"]), ev["rt"], bool(ev["sort"]), ev.get("via", "digest"))]
    else:
        new = _seq_event(pp, "R.0", "".join(ev["seq"]), ev["stages"], None if ev["mn"] < 0 else ev["mn"],
                         None if ev["mx"] < 0 else ev["mx"], ev["rt"])
    res = core.validate_traces("Trace_Digest", new, "C06")
    rep.add_trace("replay", new, res)
    return rep.finish(rule="replay of one recorded case")
