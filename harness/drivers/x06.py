"""X06 (not one of the listed properties; part of the growing specification, see DESIGN.md §12.8d): the two regex scanners of
util.py and merge_dicts called directly, against spec/Scan.tla.
Stage A: MC_Scan (the leftmost non-overlapping scan is a maximal disjoint sub-list of the overlapped one; offsets; merge laws).
Stage C: get_regex_match_indices / get_regex_match_range on every text of <= 5 letters over K, R, P, D, A x the zero-width and
consuming rule records of the C06 driver x offsets x (for ranges) pattern given as text or compiled; merge_dicts on small
dictionaries.  Verdicts: spec/Trace_Scan.tla."""
from __future__ import annotations

import itertools
import random
import warnings

from harness import core
from harness.project import call, chars
from harness.drivers.c06 import USER_RULES, render, zero, consuming

RULE_EXTRA = ""
RULES = [r for r in USER_RULES if r["style"] in ("zero", "consuming")] + [consuming(["K", "K"]), consuming(["KR", "KR", "KR"]),
                                                                          consuming(["A", "KA"]), zero(after="KR"), zero(beforeNot="K", afterNot="P")]


def cls(o):
    return o[4:] if o.startswith("exc:") else o


def run(tier, seed, rep):
    warnings.simplefilter("ignore")
    import regex
    from peptacular.util import get_regex_match_indices, get_regex_match_range, merge_dicts
    rnd = random.Random(seed)
    thorough = tier == "thorough"
    r = core.model_check("MC_Scan", "MC_Scan.cfg", workers=4)
    rep.add_mc("MC_Scan (leftmost scan = maximal disjoint sub-list of the overlapped scan; offsets; merge laws)", r)
    evs = []
    i = 0
    maxlen = 6 if thorough else 5
    for n in range(0, maxlen + 1):
        for t in itertools.product("KRPDA", repeat=n):
            if n >= 5 and rnd.random() < (0.5 if thorough else 0.8):
                continue
            text = "".join(t)
            for rule in (RULES if n <= 3 else rnd.sample(RULES, 3)):
                pat = render(rule)
                offset = rnd.choice([0, 0, -1, 1, 7])
                compiled = rnd.random() < 0.5
                o, v = call(lambda: list(get_regex_match_indices(text, regex.compile(pat) if compiled else pat, offset)))
                evs.append({"tid": f"i{i}", "k": "indices", "seq": chars(text), "rule": rule, "offset": offset, "out": cls(o),
                            "res": [int(x) for x in v] if o == "ret" else []})
                i += 1
                compiled = rnd.random() < 0.5
                o, v = call(lambda: get_regex_match_range(text, regex.compile(pat) if compiled else pat, offset))
                evs.append({"tid": f"g{i}", "k": "ranges", "seq": chars(text), "rule": rule, "offset": offset, "compiled": int(compiled),
                            "out": cls(o), "res": [[int(a), int(b)] for a, b in v] if o == "ret" else []})
                i += 1
    keys = ["C", "H", "N", "O", "13C", "e"]
    for _ in range(2000 if thorough else 400):
        d1 = {k: rnd.choice([-2, -1, 0, 1, 2, 5]) for k in rnd.sample(keys, rnd.randint(0, 4))}
        d2 = {k: rnd.choice([-2, -1, 0, 1, 2, 5]) for k in rnd.sample(keys, rnd.randint(0, 4))}
        a1, a2 = dict(d1), dict(d2)
        o, v = call(merge_dicts, a1, a2)
        evs.append({"tid": f"m{i}", "k": "merge", "p1": [[k, x] for k, x in d1.items()], "p2": [[k, x] for k, x in d2.items()],
                    "out": cls(o), "res": [[k, x] for k, x in v.items()] if o == "ret" else [],
                    "kept": [[[k, x] for k, x in a1.items()], [[k, x] for k, x in a2.items()]]})
        i += 1
    res = core.validate_traces("Trace_Scan", evs, "X06", min_per_shard=300)
    rep.add_trace("scanners", evs, res, sig=lambda e: (e["k"], e["out"], len(e.get("seq", [])), e.get("offset", 0), e.get("compiled", 0),
                                                       e.get("rule", {}).get("style", "")))
    return rep.finish(rule=f"every text of <= 4 letters over K, R, P, D, A (a sample of the longer ones up to {maxlen}) x {len(RULES)} "
                           "zero-width / consuming rule records x offsets {0, -1, 1, 7} x pattern as text or compiled; "
                           "merge_dicts on seeded dictionaries of <= 4 of 6 keys")


def replay(path):
    raise SystemExit("X06 has no replay")
