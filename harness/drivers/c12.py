"""C12 driver: global modification rules equal the explicit per-residue form; isotope-label shifts.
Verdicts: spec/Trace_Mass.tla (StaticFails, LabelFails)."""
from __future__ import annotations

import json
import random
import warnings

from harness import core, anngen
from harness.project import call, fix, comp8

RES = "ACDEFGHIKLMNPQRSTVWY"
STATIC_MODS = ["1", "+15.995", "3.5", "-18.010565", "Oxidation", "Carbamidomethyl", "Phospho", "Acetyl", "U:35",
               "Formula:C2H4", "Formula:[13C2]H4", "Glycan:Hex", "Methyl"]
LABELS = ["13C", "15N", "18O", "17O", "34S", "D", "T", "2H"]
IONS = ["p", "b", "y", "c", "z"]



RULE_EXTRA = ('every second event uses ONE parsed object per form for all queries (composition first); Fragmenter and mz pairs; terminal targets in the ProForma 2.0 spelling; the label shift of an ion type (p, b, y, c, z) is the same at charges 0, 1, 2, -1, -2.')

def gen_static(rnd):
    n = rnd.randint(1, 20)
    A = anngen.annotation(rnd, n, n, alphabet=RES, kinds="massy2", intervals=False, density=0.2,
                          p={"labile": 0, "unknown": 0, "charge": 0, "isotope": 0, "static": 0, "nterm": 0.3, "cterm": 0.3})
    for e in A["internal"]:
        for m in e["mods"]:
            m["m"] = min(m["m"], 3)
    rules = []
    letters = sorted(set(A["seq"]) | {"W"}) + ["N-Term", "C-Term"]
    for _ in range(rnd.choice([1, 1, 2, 3])):
        tg = rnd.sample(letters, min(len(letters), rnd.choice([1, 1, 2, 3])))
        ms = rnd.sample(STATIC_MODS, rnd.choice([1, 1, 2]))
        rules.append({"v": "s:" + "".join(f"[{m}]" for m in ms) + "@" + ",".join(tg), "m": 1})
    A["static"] = rules
    return A


def static_event(pp, tid, A, rnd):
    text = anngen.render(A)
    ev = {"tid": tid, "k": "static", "A": A, "text": text}
    o, cond = call(pp.condense_static_mods, text)
    ev["out"] = o
    ev["condensed"] = cond if o == "ret" else ""
    ev["pairs"] = []
    if o != "ret":
        return ev
    # the explicit form the queries run on comes from the real condenser; TLC checks it IS the explicit form
    ion = rnd.choice(IONS)
    z = rnd.choice([0, 1, 2]) if ion == "p" else rnd.choice([1, 2])
    mono = rnd.random() < 0.7

    # every second event: ONE parsed object of the rule form and one of the explicit form serve all queries
    # (composition first) - a parsed annotation is meant to be reused
    shared = len(tid) % 2 == 0
    src_a, src_b = (pp.parse(text), pp.parse(cond)) if shared else (text, cond)

    def both(what, kind, fn):
        oa, a = call(fn, src_a)
        ob, b = call(fn, src_b)
        if oa != "ret" or ob != "ret":
            ev["pairs"].append({"what": what + "_raised", "kind": "str", "a": oa, "b": ob})
        else:
            ev["pairs"].append({"what": what, "kind": kind, "a": a, "b": b})
    both("condensed", "str", lambda t: pp.condense_static_mods(t))      # first: condensing is a query, not an edit
    both("comp", "str", lambda t: json.dumps(comp8(pp.comp(t, ion_type=ion, charge=z, estimate_delta=True)), sort_keys=True))
    both("mass", "fix", lambda t: fix(pp.mass(t, charge=z, ion_type=ion, monoisotopic=mono)))
    both("fragment_masses", "fixbag",
         lambda t: [fix(x) for x in sorted(pp.fragment(t, ["b", "y"] if ion == "p" else [ion], [1, 2], monoisotopic=mono, return_type="mass"))])
    both("fragmenter_masses", "fixbag",
         lambda t: [fix(x) for x in sorted(pp.Fragmenter(t, monoisotopic=mono).fragment(
             ["b", "y"] if ion == "p" else [ion], [1, 2], return_type="mass"))])
    both("mz", "fix", lambda t: fix(pp.mz(t, charge=z or 1, ion_type=ion, monoisotopic=mono)))
    both("count_residues", "str", lambda t: json.dumps(sorted(pp.count_residues(t).items())))
    return ev


def gen_label(rnd):
    n = rnd.randint(1, 20)
    A = anngen.annotation(rnd, n, n, alphabet=RES, kinds="massy2", intervals=False, density=0.2,
                          p={"labile": 0.15, "unknown": 0.1, "charge": 0, "isotope": 0, "static": 0.2, "nterm": 0.3,
                             "cterm": 0.3})
    if A["static"]:
        A["static"] = [{"v": "s:" + s, "m": 1} for s in rnd.sample(anngen.STATICS_MASSY, 1)]
    from harness.drivers.c03 import cap_multipliers
    cap_multipliers(A, 3)
    labs = rnd.sample(LABELS, rnd.choice([1, 1, 2]))
    hs = [x for x in labs if x in ("D", "T", "2H")]
    if len(hs) > 1:
        labs = [x for x in labs if x not in hs[1:]]
    if "18O" in labs and "17O" in labs:
        labs.remove("17O")
    A["isotope"] = [{"v": "s:" + x, "m": 1} for x in labs]
    if rnd.random() < 0.25:   # a peptide without the labelled element (34S on a peptide without C/M)
        A["seq"] = [c if c not in "CM" else "A" for c in A["seq"]]
    return A


def label_event(pp, tid, A, mono, labelmods):
    text = anngen.render(A)
    plain = dict(A)
    plain = json.loads(json.dumps(A))
    plain["isotope"] = []
    o, r = call(lambda: (pp.mass(text, charge=0, monoisotopic=mono, use_isotope_on_mods=labelmods),
                         pp.mass(anngen.render(plain), charge=0, monoisotopic=mono)))
    ev = {"tid": tid, "k": "label", "A": A, "mono": mono, "labelMods": labelmods, "out": o,
          "labelled": fix(r[0]) if o == "ret" else [0, 0], "plain": fix(r[1]) if o == "ret" else [0, 0]}
    # the label reaches residues and termini, never the charge carriers: for one ion type the shift is the same at
    # every charge (0, positive, negative)
    ion = IONS[len(text) % len(IONS)]
    ptext = anngen.render(plain)

    def g():
        out = []
        for z in (0, 1, 2, -1, -2):
            with warnings.catch_warnings():
                warnings.simplefilter("ignore")
                out.append((z, pp.mass(text, charge=z, ion_type=ion, monoisotopic=mono, use_isotope_on_mods=labelmods),
                            pp.mass(ptext, charge=z, ion_type=ion, monoisotopic=mono)))
        return out
    o2, r2 = call(g)
    ev["ion"] = ion
    ev["byChargeOut"] = o2
    ev["byCharge"] = [{"z": z, "labelled": fix(a), "plain": fix(b)} for z, a, b in r2] if o2 == "ret" else []
    return ev


def _job(args):
    import peptacular as pp
    warnings.simplefilter("ignore")
    if args[0] == "static":
        return static_event(pp, args[1], args[2], random.Random(args[3]))
    return label_event(pp, args[1], args[2], args[3], args[4])


def run(tier, seed, rep):
    warnings.simplefilter("ignore")
    import peptacular as pp
    rnd = random.Random(seed)
    thorough = tier == "thorough"
    r = core.model_check("MC_Mass", "MC_Mass.cfg", workers=16, xmx="6g")
    rep.add_mc("MC_Mass (StaticEqualsExplicit and the other reference laws)", r)
    jobs = []
    for i in range(12000 if thorough else 1200):
        jobs.append(("static", f"s{i}", gen_static(rnd), rnd.randrange(10 ** 9)))
    for i in range(15000 if thorough else 1500):
        A = gen_label(rnd)
        jobs.append(("label", f"l{i}", A, True if i % 4 else False, rnd.random() < 0.4))
    evs = core.pmap(_job, jobs)
    res = core.validate_traces("Trace_Mass", evs, "C12", min_per_shard=60)
    rep.add_trace("static_rules_and_labels", evs, res,
                  sig=lambda e: (e["k"], len(e["A"]["seq"]) // 4, tuple(m["v"][:14] for m in e["A"]["static"])[:2],
                                 tuple(m["v"] for m in e["A"]["isotope"]), e.get("labelMods"), e.get("mono")))
    return rep.finish(rule="seeded peptides of length 1..20 with 1-3 static rules (1-3 targets among residues / N-Term / "
                           "C-Term, 1-2 numeric / named / formula / glycan modifications) on residues already carrying "
                           "modifications: condensed form, mass, composition, fragment masses, residue counts on rule form "
                           "vs explicit form; labels 13C/15N/18O/17O/34S/D/T/2H and pairs x use_isotope_on_mods x mono/avg")


def replay(path):
    ev = json.load(open(path))["event"]
    import peptacular as pp
    warnings.simplefilter("ignore")
    new = [static_event(pp, "R.0", ev["A"], random.Random(0))] if ev["k"] == "static" else \
        [label_event(pp, "R.0", ev["A"], ev["mono"], ev["labelMods"])]
    res = core.validate_traces("Trace_Mass", new, "C12")
    rep = core.Report("C12", "quick", 0)
    rep.add_trace("replay", new, res)
    return rep.finish(rule="replay of one recorded case")
