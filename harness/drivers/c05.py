"""C05 driver: fragment ion series obey backbone-cleavage chemistry.
Verdicts: spec/Trace_Fragment.tla (SeriesFails) with offsets from spec/Fragment.tla over the independent Nist table."""
from __future__ import annotations

import json
import random
import warnings

from harness import core, anngen, project
from harness.project import call, fix

RES = "ACDEFGHIKLMNPQRSTVWYUO"
TERMINAL = ["a", "b", "c", "x", "y", "z"]
INTERNAL = ["ax", "ay", "az", "bx", "by", "bz", "cx", "cy", "cz"]



RULE_EXTRA = ('both mass modes per peptide; the four charge states requested in a peptide-dependent order.')

def gen(rnd):
    n = rnd.randint(2, 15)
    A = anngen.empty(rnd.choice(RES) for _ in range(n))

    def ml():
        out = []
        for _ in range(rnd.choice([1, 1, 2])):
            if rnd.random() < 0.5:
                t, b = rnd.choice(anngen.NUMS)
                v = f"{t}:{b}"
            else:
                v = "s:" + rnd.choice(anngen.FORMULAS)
            out.append({"v": v, "m": rnd.choice([1, 1, 1, 2, 3])})
        return out
    for i in range(n):
        if rnd.random() < 0.3:
            A["internal"].append({"i": i, "mods": ml()})
    if rnd.random() < 0.4:
        A["nterm"] = ml()
    if rnd.random() < 0.4:
        A["cterm"] = ml()
    return A


def series_event(pp, tid, A, mono, rnd):
    n = len(A["seq"])
    text = anngen.render(A)
    ev = {"tid": tid, "k": "series", "A": A, "mono": mono, "bad": []}

    def f():
        M = pp.mass(text, charge=0, ion_type="p", monoisotopic=mono)
        project.maybe_poison(pp, text, tid, every=2)
        # the charge list in an order that depends on the peptide (each charge state is computed on its own)
        zs = [[1, 2, 3, 4], [4, 3, 2, 1], [2, 4, 1, 3], [3, 1, 4, 2]][len(text) % 4]
        if len(text) % 3 == 0:
            # through the Fragmenter class: constructed once for the peptide, asked three times
            fr_ = pp.Fragmenter(text, monoisotopic=mono)
            frag = lambda ions, charges: fr_.fragment(ions, charges)
        else:
            frag = lambda ions, charges: pp.fragment(text, ions, charges, monoisotopic=mono)
        tf = frag(TERMINAL, zs)
        im = frag("i", [2, 1] if len(text) % 2 else [1, 2])
        it = frag(INTERNAL, [1]) if n >= 3 else []
        return M, tf, im, it
    o, r = call(f)
    ev["out"] = o
    if o != "ret":
        ev.update(M=[0, 0], a=[], b=[], c=[], x=[], y=[], z=[], imm=[], internal=[], labels=[])
        return ev
    M, tf, im, it = r
    ev["M"] = fix(M)
    slots = {t: [[None] * 4 for _ in range(n)] for t in TERMINAL}
    labels = []
    for fr in tf:
        idx = fr.end - 1 if fr.ion_type in "abc" else fr.start
        ok = (fr.start == 0) if fr.ion_type in "abc" else (fr.end == n)
        if not ok or not (0 <= idx < n) or not (1 <= fr.charge <= 4) or slots[fr.ion_type][idx][fr.charge - 1] is not None:
            ev["bad"].append(f"{fr.ion_type}:{fr.start}:{fr.end}:{fr.charge}")
            continue
        slots[fr.ion_type][idx][fr.charge - 1] = fix(fr.mass)
        # how the ion calls itself: b_i is the ion ending at residue i, y_j the one made of the last j residues
        labels.append({"t": fr.ion_type, "s": fr.start, "e": fr.end, "z": fr.charge, "num": str(fr.number), "label": str(fr.label)})
    ev["labels"] = labels if len(labels) <= 40 else rnd.sample(labels, 40)
    imm = [[None, None] for _ in range(n)]
    for fr in im:
        if fr.end != fr.start + 1 or not (0 <= fr.start < n) or imm[fr.start][fr.charge - 1] is not None:
            ev["bad"].append(f"i:{fr.start}:{fr.end}:{fr.charge}")
            continue
        imm[fr.start][fr.charge - 1] = fix(fr.mass)
    for t in TERMINAL:
        for i in range(n):
            for q in range(4):
                if slots[t][i][q] is None:
                    ev["bad"].append(f"missing {t}:{i}:{q + 1}")
                    slots[t][i][q] = [0, 0]
        ev[t] = slots[t]
    for i in range(n):
        for q in range(2):
            if imm[i][q] is None:
                ev["bad"].append(f"missing i:{i}:{q + 1}")
                imm[i][q] = [0, 0]
    ev["imm"] = imm
    spans = sorted({(fr.start, fr.end) for fr in it})
    if len(spans) > 8:
        spans = rnd.sample(spans, 8)
    keep = set(spans)
    ev["internal"] = [{"t": fr.ion_type, "s": fr.start, "e": fr.end, "m": fix(fr.mass)} for fr in it
                      if (fr.start, fr.end) in keep]
    return ev


def run(tier, seed, rep):
    warnings.simplefilter("ignore")
    import peptacular as pp
    rnd = random.Random(seed)
    thorough = tier == "thorough"
    r = core.model_check("MC_Series", "MC_Series.cfg", workers=8)
    rep.add_mc("MC_Series (the reference offsets are internally consistent)", r)
    evs = []
    for i in range(6000 if thorough else 450):
        A = gen(rnd)
        first = i % 3 != 0
        # the same peptide in both mass modes, one after the other (in either order)
        evs.append(series_event(pp, f"s{i}.0", A, first, rnd))
        evs.append(series_event(pp, f"s{i}.1", A, not first, rnd))
    res = core.validate_traces("Trace_Fragment", evs, "C05", per_shard_max=500, min_per_shard=20)
    rep.add_trace("ion_series", evs, res,
                  sig=lambda e: (len(e["A"]["seq"]), e["mono"], bool(e["A"]["nterm"]), bool(e["A"]["cterm"]),
                                 len(e["A"]["internal"]), "".join(sorted(set(e["A"]["seq"])))[:6]))
    return rep.finish(rule="seeded peptides of length 2..15 over the 20 standard letters + U, O with numeric / formula "
                           "modifications (multiplier 1..3) on residues and termini; all 6 terminal series at charge 1..4, "
                           "immonium at charge 1..2, all 9 internal series (up to 8 spans per peptide), mono and average")


def replay(path):
    ev = json.load(open(path))["event"]
    import peptacular as pp
    warnings.simplefilter("ignore")
    new = [series_event(pp, "R.0", ev["A"], ev["mono"], random.Random(0))]
    res = core.validate_traces("Trace_Fragment", new, "C05")
    rep = core.Report("C05", "quick", 0)
    rep.add_trace("replay", new, res)
    return rep.finish(rule="replay of one recorded case")
