"""C15 driver: chemical and glycan formulas survive a write/parse round trip and add linearly.
Verdicts: spec/Trace_Formula.tla (formula grammar and masses from spec/Chem.tla over the independent Nist table)."""
from __future__ import annotations

import json
import random
import re
import warnings
from decimal import Decimal

from harness import core
from harness.project import call, fix



RULE_EXTRA = ("a parse after an earlier parse result of the same text was edited (by the caller and by the library's relabelling); mixed name / synonym dictionaries; parse outcome judged when the written glycan form is unambiguous.")

def element_symbols():
    """Element and isotope symbols of the bundled table (symbols only; no masses are read here)."""
    syms, iso = [], []
    cur = {}
    for line in open("/repo/src/peptacular/data/chem.txt"):
        line = line.strip()
        if line.startswith("Atomic Symbol"):
            cur["s"] = line.split("=")[1].strip()
        elif line.startswith("Mass Number"):
            cur["m"] = line.split("=")[1].strip()
        elif line == "" and cur:
            if cur["s"] not in ("D", "T") and cur["s"] not in syms:
                syms.append(cur["s"])
            iso.append(cur["m"] + ("H" if cur["s"] in ("D", "T") else cur["s"]))
            cur = {}
    return syms, iso


def e4(x) -> int:
    d = Decimal(repr(x)) if isinstance(x, float) else Decimal(str(x))
    return int((d * 10000).to_integral_value())


def pairs(c: dict) -> list:
    return [[str(k), e4(v)] for k, v in c.items()]


def rand_count(rnd):
    r = rnd.random()
    if r < 0.5:
        return rnd.choice([1, 2, 3, 5, 12, 60, 200, 500, -1, -2, -200, 0])
    if r < 0.75:
        return rnd.randint(-200, 500)
    return float(Decimal(rnd.randint(-2000000, 5000000)) / Decimal(10000))


def rand_comp(rnd, syms, isos):
    c = {}
    hazard = ["C", "Ce", "Cl", "Co", "H", "He", "N", "Na", "e", "p", "n", "D", "T", "13C", "2H", "15N", "O", "S", "P"]
    for _ in range(rnd.randint(1, 7)):
        r = rnd.random()
        k = rnd.choice(hazard) if r < 0.5 else rnd.choice(syms) if r < 0.85 else rnd.choice(isos)
        c[k] = rand_count(rnd)
    return c


def rand_formula_text(rnd, syms):
    parts = []
    for _ in range(rnd.randint(1, 5)):
        el = rnd.choice(["C", "H", "N", "O", "S", "Cl", "Na", "C", "H"] + rnd.sample(syms, 2))
        cnt = rnd.choice(["", "2", "12", "-1", "1.5", "-0.25", "3"])
        if rnd.random() < 0.3 and el in ("C", "N", "O", "H", "S"):
            parts.append("[" + {"C": "13C", "N": "15N", "O": "18O", "H": "2H", "S": "34S"}[el] + cnt + "]")
        elif rnd.random() < 0.1:
            parts.append("[" + rnd.choice(["D", "T"]) + cnt + "]")
        else:
            parts.append(el + cnt)
    return "".join(parts)


def sugar_table():
    rows = []
    txt = open("/repo/src/peptacular/data/monosaccharides_updated.obo").read()
    for blk in txt.split("[Term]")[1:]:
        name = re.search(r"^name: (.*)$", blk, re.M).group(1)
        syn = re.findall(r'^synonym: "([^"]+)"', blk, re.M)
        f = re.search(r'has_chemical_formula "([^"]+)"', blk)
        rows.append({"name": name, "syns": syn, "formula": f.group(1) if f else ""})
    return rows


def run(tier, seed, rep):
    warnings.simplefilter("ignore")
    import peptacular as pp
    rnd = random.Random(seed)
    thorough = tier == "thorough"
    syms, isos = element_symbols()
    r = core.model_check("MC_Formula", "MC_Formula.cfg", workers=8)
    rep.add_mc("MC_Formula (the reference formula grammar: parse of the canonical text, additivity, hazard symbols)", r)
    evs = []
    for i in range(60000 if thorough else 6000):
        c = rand_comp(rnd, syms, isos)
        sep = rnd.choice(["", "", " ", "|"])
        hill = rnd.random() < 0.5
        if sep and all(v == 0 for v in c.values()):
            continue
        arg = dict(c)     # the caller's composition object: written twice, must stay what it was
        call(lambda: pp.write_chem_formula(arg, sep=sep, hill_order=hill))
        o, r_ = call(lambda: (pp.write_chem_formula(arg, sep=sep, hill_order=hill),))
        if o == "ret" and arg != c:
            o = "argument_changed"
        ev = {"tid": f"f{i}", "k": "formula_rt", "comp": pairs(c), "sep": sep, "hill": hill, "out": o, "text": "", "parsed": [],
              "massOk": False, "massText": [0, 0], "massComp": [0, 0]}
        if o == "ret":
            ev["text"] = r_[0]
            if i % 2:
                # the text was parsed before and the earlier result was edited (by the caller, by the library's own
                # relabelling of a parsed formula): a parse is a function of the text
                def warm():
                    d0 = pp.parse_chem_formula(r_[0], sep=sep)
                    if sep == "":
                        pp.apply_isotope_mods_to_composition(r_[0], ["13C", "15N"])
                    d0.clear()
                    d0["EDIT"] = 1
                call(warm)
            o2, p2 = call(lambda: pp.parse_chem_formula(r_[0], sep=sep))
            ev["out"] = o2
            if o2 == "ret":
                ev["parsed"] = pairs(p2)
                o3, m = call(lambda: (pp.chem_mass(r_[0], sep=sep), pp.chem_mass(dict(c))))
                if o3 == "ret" and abs(m[0]) < 2e9:
                    ev["massOk"], ev["massText"], ev["massComp"] = True, fix(m[0]), fix(m[1])
        evs.append(ev)
    for i in range(30000 if thorough else 3000):
        t1, t2 = rand_formula_text(rnd, syms), rand_formula_text(rnd, syms)
        o, r_ = call(lambda: (pp.parse_chem_formula(t1), pp.parse_chem_formula(t2), pp.parse_chem_formula(t1 + t2)))
        evs.append({"tid": f"a{i}", "k": "formula_add", "t1": t1, "t2": t2, "out": o,
                    "c1": pairs(r_[0]) if o == "ret" else [], "c2": pairs(r_[1]) if o == "ret" else [],
                    "c12": pairs(r_[2]) if o == "ret" else []})
    table = sugar_table()
    names = [t["name"] for t in table]
    for i in range(15000 if thorough else 2000):
        d = {}
        for nm in rnd.sample(names, rnd.randint(1, 4)):
            d[nm] = rnd.choice([1, 2, 3, 5, 20, -1, -5, 0, 1.5, -2.25]) if rnd.random() < 0.8 else rnd.randint(-5, 20)
        # sometimes the same monosaccharide appears under its name AND one of its synonyms
        if rnd.random() < 0.35:
            cands = [t for t in table if t["syns"] and t["name"] in d]
            if cands:
                t = rnd.choice(cands)
                d[rnd.choice(t["syns"])] = rnd.choice([1, 2, 3, -1, 2.5])
        syn = {}
        for k, v in d.items():
            if not any(t["name"] == k for t in table):      # already a synonym
                syn[k] = syn.get(k, 0) + v
                continue
            row = next(t for t in table if t["name"] == k)
            key = rnd.choice(row["syns"]) if row["syns"] and rnd.random() < 0.7 else k
            syn[key] = syn.get(key, 0) + v

        def f():
            text = pp.write_glycan_formula(dict(d))
            return (text, pp.glycan_comp(dict(d)), pp.glycan_comp(dict(syn)), pp.glycan_mass(dict(d)), pp.glycan_mass(dict(syn)))
        o, r_ = call(f)
        ev = {"tid": f"g{i}", "k": "glycan", "dict": pairs(d), "syn": pairs(syn), "table": table, "out": o}
        if o == "ret":
            op, parsed = call(lambda: pp.parse_glycan_formula(r_[0]))      # may legitimately fail on an ambiguous text
            ev.update(text=r_[0], parseOut=op, parsed=pairs(parsed) if op == "ret" else [], comp=pairs(r_[1]),
                      compSyn=pairs(r_[2]), mass=fix(r_[3]), massSyn=fix(r_[4]))
        else:
            ev.update(text="", parseOut="", parsed=[], comp=[], compSyn=[], mass=[0, 0], massSyn=[0, 0])
        evs.append(ev)
    res = core.validate_traces("Trace_Formula", evs, "C15", min_per_shard=150)
    rep.add_trace("formulas_and_glycans", evs, res,
                  sig=lambda e: (e["k"], e.get("sep"), e.get("hill"), tuple(sorted(p[0] for p in e.get("comp", e.get("dict", []))))[:5],
                                 e.get("t1", "")[:8]))
    return rep.finish(rule="seeded compositions over every element symbol of the bundled table, isotope-prefixed symbols, "
                           "D/T and e/p/n with integer counts in [-200,500] or decimals with <=4 places x separator in "
                           "{'', ' ', '|'} x hill order; seeded formula texts for additivity (repeated elements, bracketed "
                           "isotopes); multisets of the 27 monosaccharides (names and synonyms) with integer / decimal counts")


def replay(path):
    ev = json.load(open(path))["event"]
    res = core.validate_traces("Trace_Formula", [ev], "C15")
    rep = core.Report("C15", "quick", 0)
    rep.add_trace("replay (recorded event re-validated)", [ev], res)
    return rep.finish(rule="replay of one recorded event")
