"""X03 (not one of the listed properties; part of the growing specification, see DESIGN.md §12.8b): the readers of the small
notations inside a ProForma string - one ion of a charge-adduct list, the list of global isotope labels, the global
rules - against spec/Notations.tla.
Stage A: MC_Notations (on every well-formed ion the three-scan machine reads what Mass!Adduct, the reference of C02, weighs).
Stage C: the real functions on every short text / label list / rule list.  Verdicts: spec/Trace_Notations.tla."""
from __future__ import annotations

import itertools
import random
import warnings

from harness import core, project
from harness.project import call

RULE_EXTRA = ""
ALPHABET = ["+", "-", "1", "2", "0", "N", "a", "H", "e", "C", ",", "."]
LABELS = ["13C", "14C", "15N", "18O", "17O", "D", "T", "2H", "3H", "H", "C", "34S", "57Fe", "C13", "Xx", "13", "", "c", "e"]
RULES = ["[Oxidation]@M", "[1]@P,E", "[Phospho]@S,T,Y", "[Acetyl]@N-term", "[Amidated]@C-Term", "[Methyl][Oxidation]@E",
         "[3.5]@n-term,K", "[Oxidation]^2@M", "[Formula:[13C2]H4]@R", "[1]@P", "[Oxidation]@C-term,M", "[-18.010565]@D"]


def cls(o):
    return o[4:] if o.startswith("exc:") else o


def run(tier, seed, rep):
    warnings.simplefilter("ignore")
    import peptacular as pp
    from peptacular.proforma.proforma_parser import parse_static_mods, write_static_mods
    rnd = random.Random(seed)
    thorough = tier == "thorough"
    r = core.model_check("MC_Notations", "MC_Notations.cfg", workers=8)
    rep.add_mc("MC_Notations (ion machine = Mass!Adduct on well-formed ions; symbol without digits/signs; label map laws)", r)
    evs = []
    i = 0
    maxlen = 5 if thorough else 4
    for n in range(0, maxlen + 1):
        for t in itertools.product(ALPHABET, repeat=n):
            if n == maxlen and not thorough and rnd.random() < 0.6:
                continue
            text = "".join(t)
            o, v = call(pp.parse_ion_elements, text)
            evs.append({"tid": f"i{i}", "k": "ion", "text": text, "out": cls(o), "cnt": v[0] if o == "ret" else 0,
                        "sym": v[1] if o == "ret" else "", "q": v[2] if o == "ret" else 0})
            i += 1
    for n in range(0, 4):
        for labs in itertools.product(LABELS, repeat=n):
            if n == 3 and rnd.random() < (0.5 if thorough else 0.9):
                continue
            # as text or as a Mod object (a Mod turns a text of digits into a number: only texts with a letter)
            given = [pp.Mod(x, 1) if rnd.random() < 0.3 and any(c.isalpha() for c in x) else x for x in labs]
            o, v = call(pp.parse_isotope_mods, given)
            evs.append({"tid": f"l{i}", "k": "labels", "labs": list(labs), "out": cls(o),
                        "res": [[k, x] for k, x in v.items()] if o == "ret" else []})
            i += 1
    for _ in range(3000 if thorough else 500):
        rules = [rnd.choice(RULES) for _ in range(rnd.randint(0, 4))]
        given = [pp.Mod(x, 1) if rnd.random() < 0.5 else x for x in rules]
        o, v = call(parse_static_mods, given)
        ev = {"tid": f"r{i}", "k": "rules", "rules": ["s:" + x for x in rules], "out": cls(o), "res": [], "again": []}
        if o == "ret":
            ev["res"] = [[k, project.mods(ms)] for k, ms in v.items()]
            o2, w = call(lambda: parse_static_mods(write_static_mods(v)))
            ev["again"] = [[k, project.mods(ms)] for k, ms in w.items()] if o2 == "ret" else [["raised", []]]
        evs.append(ev)
        i += 1
    res = core.validate_traces("Trace_Notations", evs, "X03", min_per_shard=300)
    rep.add_trace("small_notations", evs, res, sig=lambda e: (e["k"], e["out"], len(e.get("text", "")), len(e.get("labs", [])),
                                                              tuple(e.get("rules", []))[:2]))
    return rep.finish(rule=f"every text of <= {maxlen} characters over {len(ALPHABET)} characters (quick: 40% of the longest) for "
                           "parse_ion_elements; every list of <= 3 labels from 19 (13 isotopes, 6 non-labels); seeded lists of "
                           "<= 4 global rules from 12, given as strings or Mod objects, read, written and read again")


def replay(path):
    raise SystemExit("X03 has no replay")
