"""C08 driver: queries never change their arguments or depend on call history.
Verdicts: spec/Trace_Session.tla (call classes and editor effects in spec/Session.tla)."""
from __future__ import annotations

import collections
import copy
import hashlib
import json
import random
import types
import warnings

from harness import core, anngen, project, calls
from harness.project import call

SEEDS = [
    "{Glycan:Hex}<[Carbamidomethyl]@C><13C>[Acetyl]-PEPK[Oxidation]TIDEC[1.5]K-[Amidated]/2",
    "{Phospho}[Formula:C2H4]?[Acetyl]-PE[Phospho]PKTIDEK/2[+2Na+]",
    "PEPKTIDEK",
    "<[Oxidation]@M>[1]-MEPKTM[Methyl]DEK-[2]/3",
    "[XLMOD:01000]-PEP(TI)[Phospho][1.5]DEK[X:DSS]",
    # a peptide whose mass cannot be determined (ambiguous residue B, a modification that carries no mass): every mass-like
    # query raises, and must leave the object as it found it on that path too
    "{Glycan:Hex}[Acetyl]-PEPB[INFO:note]TIDEK-[Amidated]/2",
    # whole numbers as rule values and a float that is a whole number: queries that rebuild modifications from numbers
    # (condensing rules, condensing to mass shifts) meet 100, 100.0, 3 and 2.0 as numbers, not as text
    "<[100]@P>[3]-PEPKTIDEK-[2.0]",
]


def canon(x, depth=0):
    """Any returned value -> JSON-able canonical structure (generators are consumed)."""
    from peptacular.proforma.proforma_dataclasses import Mod, Interval
    import peptacular as pp
    if depth > 8:
        return "..."
    if x is None or isinstance(x, (bool, int, str)):
        return x
    if isinstance(x, float):
        return repr(round(x, 9))
    if isinstance(x, pp.ProFormaAnnotation):
        return {"ann": project.ann(x), "has": project.has_bits(x)}
    if isinstance(x, pp.MultiProFormaAnnotation):
        return {"multi": [canon(a, depth + 1) for a in x.annotations], "links": list(x.connections)}
    if isinstance(x, Mod):
        return {"mod": project.val(x.val), "m": x.mult}
    if isinstance(x, Interval):
        return {"iv": [x.start, x.end, bool(x.ambiguous), canon(x.mods, depth + 1)]}
    if isinstance(x, (dict, collections.Counter)):
        return {"dict": sorted(([str(k), canon(v, depth + 1)] for k, v in x.items()), key=lambda kv: kv[0])}
    if isinstance(x, (list, tuple, set, frozenset, types.GeneratorType)) or hasattr(x, "__next__"):
        items = [canon(v, depth + 1) for v in x]
        return items if not isinstance(x, (set, frozenset)) else sorted(items, key=json.dumps)
    if hasattr(x, "__dict__") or hasattr(x, "__dataclass_fields__"):
        if hasattr(x, "__dataclass_fields__"):
            # the declared fields: what a cached_property leaves in the instance dictionary is not part of the value
            d = {k: getattr(x, k) for k in x.__dataclass_fields__ if not k.startswith("_") and hasattr(x, k)}
        else:
            d = {k: v for k, v in vars(x).items() if not k.startswith("_")} if hasattr(x, "__dict__") else {}
        return {type(x).__name__: canon(d, depth + 1)}
    return repr(x)


def cstr(x):
    return json.dumps(canon(x), sort_keys=True, separators=(",", ":"))


def glob_state(pp):
    from peptacular.mods import mod_db_setup as m
    voc = []
    for d in (m.UNIMOD_DB, m.PSI_MOD_DB, m.XLMOD_DB, m.MONOSACCHARIDES_DB):
        tot, none = 0.0, 0
        for x in d.id_map.values():      # digest of every entry's stored masses (the fields lookups may cache into)
            a, b = x.mono_mass, x.avg_mass
            if a is None:
                none += 1
            else:
                tot += a
            if b is None:
                none += 1
            else:
                tot += 3 * b
        voc.append([len(d), repr(round(tot, 6)), none, len(d.name_map), len(d.synonym_map)])
    return {"rng": hashlib.sha1(repr(random.getstate()).encode()).hexdigest()[:16], "voc": voc}


def snapshot(pp, a, aux):
    # "text": the object's own serialisation (observes the ORDER of modification lists, which the bag-valued
    # projection deliberately forgets); the exception class if it cannot be written
    o, t = call(a.serialize)
    return {"obj": {"ann": project.ann(a), "has": project.has_bits(a), "text": t if o == "ret" else o},
            "aux": cstr(aux), "glob": glob_state(pp)}


def rebuild(pp, a):
    """A fresh object with the same observable state, built by the dataclass constructor (deep copies)."""
    return pp.ProFormaAnnotation(**{k: copy.deepcopy(v) for k, v in vars(a).items()})


def edit_result(pp, r, depth=0):
    """Mutate a returned value in place (what a caller may legitimately do with something it was given)."""
    from peptacular.proforma.proforma_dataclasses import Mod
    if isinstance(r, pp.ProFormaAnnotation):
        r.add_internal_mod(0, [Mod("EDITED", 1)], append=True)
        r.add_nterm_mods([Mod("EDITED", 1)], append=True)
        if r.labile_mods is not None:
            r.labile_mods.append(Mod("EDITED", 1))
        if r.intervals:
            for iv in r.intervals:
                if iv.mods is not None:
                    iv.mods.append(Mod("EDITED", 1))
        r.charge = 99
    elif isinstance(r, list):
        for x in r[:3]:
            edit_result(pp, x, depth + 1)
        r.append("EDITED")
    elif isinstance(r, dict):
        for k in list(r)[:4]:
            edit_result(pp, r[k], depth + 1)
        r["EDITED"] = 1
    elif isinstance(r, tuple):
        for x in r[:3]:
            edit_result(pp, x, depth + 1)
    elif isinstance(r, Mod):
        r.val = "EDITED"
    elif hasattr(r, "__dict__") and not isinstance(r, type):
        # any other returned object (Fragment, Interval, Fragmenter, ...): edit the annotations / lists it holds
        for k, v in list(vars(r).items())[:12]:
            if isinstance(v, (pp.ProFormaAnnotation, list, dict)) and depth < 3:
                edit_result(pp, v, depth + 1)


_REF = {}


def reference_results():
    """Every query on every seed annotation (and the text-only queries) evaluated in ONE fresh interpreter, text-only
    queries first: {seed text or "": {call: canonical result}}.  Facts only; Trace_Session compares.
    A SECOND fresh interpreter evaluates the same queries in the opposite order (seeds and calls reversed): what a fresh
    process answers must not depend on what it answered before (returned as the second value)."""
    import subprocess
    import sys
    import os
    import peptacular
    src = os.path.dirname(os.path.dirname(os.path.abspath(peptacular.__file__)))
    procs = []
    for rev in (False, True):
        code = ("import sys, json, warnings; sys.path[:0] = %r; warnings.simplefilter('ignore')\n"
                "from harness.drivers import c08; print('REF' + json.dumps(c08._reference(%r)))" % ([str(core.VERIF), src], rev))
        procs.append(subprocess.Popen([sys.executable, "-c", code], stdout=subprocess.PIPE, stderr=subprocess.PIPE, text=True,
                                      cwd=str(core.VERIF)))
    outs = []
    for p in procs:
        so, se = p.communicate(timeout=900)
        line = [ln for ln in so.splitlines() if ln.startswith("REF")]
        if p.returncode != 0 or not line:
            core.die_machinery("reference interpreter failed: " + se[-2000:])
        outs.append(json.loads(line[-1][3:]))
    return outs[0], outs[1]


def _reference(rev=False):
    import peptacular as pp
    table = calls.table()
    ref = {"": {}}
    random.seed(4242)
    order = sorted(table, key=lambda n: (not n.startswith("t_"), n))
    texts = [""] + SEEDS
    if rev:
        order, texts = order[::-1], texts[::-1]
    for text in texts:
        ref.setdefault(text, {})
        for name in order:
            cls, fn = table[name]
            if cls != "Q" or (text == "") != name.startswith("t_"):
                continue
            random.seed(4242)
            a, aux = pp.parse(text or "PEK"), calls.aux(pp)
            o, r = call(lambda: fn(pp, a, aux))
            if o == "ret" and (isinstance(r, types.GeneratorType) or hasattr(r, "__next__")):
                o, r = call(lambda: list(r))
            ref[text][name] = cstr(r) if o == "ret" else o
    return ref


def run_history(pp, table, text, names, hid):
    random.seed(4242)
    a = pp.parse(text)
    aux = calls.aux(pp)
    evs = []
    for step, name in enumerate(names, 1):
        cls, fn = table[name]
        pre = snapshot(pp, a, aux)
        fresh_obj, fresh_aux = rebuild(pp, a), copy.deepcopy(aux)
        rng = random.getstate()
        o, r = call(lambda: fn(pp, a, aux))
        if o == "ret" and (isinstance(r, types.GeneratorType) or hasattr(r, "__next__")):
            o, r = call(lambda: list(r))
        res = cstr(r) if o == "ret" else o
        post = snapshot(pp, a, aux)
        # same call on a fresh object (and fresh containers) rebuilt from the pre-state, same RNG state
        after = random.getstate()
        random.setstate(rng)
        o2, r2 = call(lambda: fn(pp, fresh_obj, fresh_aux))
        if o2 == "ret" and (isinstance(r2, types.GeneratorType) or hasattr(r2, "__next__")):
            o2, r2 = call(lambda: list(r2))
        fresh = cstr(r2) if o2 == "ret" else o2
        random.setstate(after)
        if o == "ret" and cls == "Q":
            call(lambda: edit_result(pp, r))
        edited = snapshot(pp, a, aux)
        ref = ""
        if cls == "Q" and name.startswith("t_"):
            ref = _REF.get("", {}).get(name, "")
        elif cls == "Q" and all(table[n_][0] == "Q" for n_ in names[:step - 1]):
            # no editor so far: the object is still in the state the seed text denotes
            ref = _REF.get(text, {}).get(name, "")
        ev = {"tid": f"{hid}.{step}", "hid": hid, "step": step, "call": name, "cls": cls, "history": list(names), "seed": text,
              "ref": ref,
              "post": post, "edited": edited, "res": res if cls == "Q" else "", "fresh": fresh if cls == "Q" else "", "out": o}
        if step == 1:
            ev["pre"] = pre
        evs.append(ev)
    return evs


def _job(args):
    import peptacular as pp
    warnings.simplefilter("ignore")
    return run_history(pp, calls.table(), *args)


def run(tier, seed, rep):
    warnings.simplefilter("ignore")
    import peptacular as pp
    rnd = random.Random(seed)
    thorough = tier == "thorough"
    out = core.workdir() / "c08_behaviours.ndjson"
    r = core.model_check("MC_Session", "MC_Session.cfg", env={"OUT_FILE": str(out)}, workers=8)
    rep.add_mc("MC_Session (the session machine: queries are stuttering steps, editor effects, history freedom)", r)
    table = calls.table()
    names = list(table)
    saved = random.getstate()
    jobs = []
    hid = 0
    # stage B: the behaviours of the model (16 seed annotations x 12 calls ^ 3), stepped through the real library
    behaviours = [json.loads(line) for line in open(out) if line.strip()]
    if not thorough:
        behaviours = rnd.sample(behaviours, 600)
    for b in behaviours:
        jobs.append((b["seed"], list(b["hist"]), f"b{hid}"))
        hid += 1
    nb = hid
    # the same query before and after any other call: [q, x, q]
    queries = [n for n in names if table[n][0] == "Q"]
    for q in (queries if thorough else rnd.sample(queries, 40)):
        for x in (names if thorough else rnd.sample(names, 12)):
            jobs.append((rnd.choice(SEEDS), [q, x, q], f"r{hid}"))
            hid += 1
    seeds = SEEDS if thorough else [SEEDS[0], SEEDS[1], SEEDS[4], SEEDS[5]]
    for text in seeds:
        for first in names:
            # (the whole-number seed, added last, is paired with a sample in both tiers: the thorough tier holds ~440 k events
            # in memory as it is - about 9 GB in the driver process)
            seconds = names if thorough and text != SEEDS[6] else rnd.sample(names, 10)
            for second in seconds:
                jobs.append((text, [first, second], f"h{hid}"))
                hid += 1
    for _ in range(20000 if thorough else 700):
        jobs.append((rnd.choice(SEEDS), [rnd.choice(names) for _ in range(3)], f"t{hid}"))
        hid += 1
    _REF.clear()
    fwd, bwd = reference_results()
    _REF.update(fwd)                       # before the pool forks: the workers inherit it
    evs = [e for lst in core.pmap(_job, jobs) for e in lst]
    # the two fresh interpreters against each other: one event per (seed, query)
    k_ = 0
    for text in sorted(fwd):
        for name in sorted(fwd[text]):
            k_ += 1
            evs.append({"tid": f"ref.{k_}", "hid": f"ref{k_ % 16}", "step": 1, "call": name, "cls": "R", "history": [name], "seed": text,
                        "ref": fwd[text][name], "res": bwd.get(text, {}).get(name, "<not evaluated>"), "fresh": "", "out": "ret",
                        "post": [], "edited": []})
    random.setstate(saved)
    # keep histories together: shard by history
    res = core.validate_traces("Trace_Session", evs, "C08", min_per_shard=300, by="hid")
    rep.add_trace("histories", evs, res, traces=hid,
                  sig=lambda e: (e["call"], e["step"], tuple(e["history"][:e["step"] - 1])[-1:] if e["step"] > 1 else (), e["seed"][:12]))
    return rep.finish(rule=f"{len(names)} public calls ({sum(1 for n in names if table[n][0] == 'Q')} queries, "
                           f"{sum(1 for n in names if table[n][0] == 'E')} editors) on one shared object: the behaviours "
                           "emitted by TLC from MC_Session (16 seed annotations x 12 calls ^ 3; quick: 600 sampled); the same "
                           "query before and after any other call [q, x, q] (thorough: all; quick: 40 x 12 sampled); ordered pairs "
                           "(thorough: all pairs x 5 seed annotations; quick: every first call x 10 sampled second calls x 3 "
                           "seeds) and random triples; every step logs the projected state of the object (incl. its own "
                           "serialisation), the auxiliary containers and process-wide state (RNG, a digest of every vocabulary "
                           "entry's stored masses), the result, the result on a fresh object, the result of the same call in one "
                           "fresh interpreter (for every step whose prefix has no editor) and the state after editing the result")


def replay(path):
    ev = json.load(open(path))["event"]
    import peptacular as pp
    warnings.simplefilter("ignore")
    new = run_history(pp, calls.table(), ev["seed"], ev["history"], "R")
    res = core.validate_traces("Trace_Session", new, "C08", by="hid")
    rep = core.Report("C08", "quick", 0)
    rep.add_trace("replay", new, res)
    return rep.finish(rule="replay of one recorded history")
