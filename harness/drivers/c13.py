"""C13 driver: static and variable modification builders. Verdicts: spec/Trace_ModBuilder.tla (reference ModBuilder.tla)."""
from __future__ import annotations

import itertools
import json
import random
import warnings

from harness import core, anngen, project
from harness.project import call

ALPHA = "STNGPK"


class Fresh:
    def __init__(self):
        self.n = 100

    def mod(self, rnd):
        self.n += 1
        r = rnd.random()
        v = f"i:{self.n}" if r < 0.5 else f"f:{self.n}.5" if r < 0.7 else f"s:Formula:C{self.n}" if r < 0.85 else f"s:INFO:m{self.n}"
        return {"v": v, "m": rnd.choice([1, 1, 1, 2])}

    def mods(self, rnd):
        return [self.mod(rnd) for _ in range(rnd.choice([1, 1, 2]))]



RULE_EXTRA = ('rules in the documented input shorthands (scalar, flat list, bare values) as well as nested Mod lists; a group offered by two rules; two groups equal as sets and different as lists (a modification once and twice); a group equal to what the residue already carries (append / overwrite).')

def rand_rule(rnd, fresh, variable):
    st = rnd.choice(["letter", "letter", "lookbehind", "literal2"])
    r = {"style": st, "cls": [], "before": [], "a": "", "b": "", "mods": [], "groups": []}
    if st == "letter":
        r["cls"] = rnd.sample(ALPHA, rnd.choice([1, 1, 2]))
    elif st == "lookbehind":
        r["cls"] = rnd.sample(ALPHA, rnd.choice([1, 2]))
        r["before"] = rnd.sample(ALPHA, rnd.choice([1, 2]))
    else:
        r["a"], r["b"] = rnd.choice(ALPHA), rnd.choice(ALPHA)
    if variable:
        r["groups"] = [fresh.mods(rnd) for _ in range(rnd.choice([1, 1, 2, 3]))]
    else:
        r["mods"] = fresh.mods(rnd)
    return r


def rand_term_rule(rnd, fresh, variable):
    r = {"cond": rnd.sample(ALPHA, rnd.choice([1, 2])) if rnd.random() < 0.5 else [], "mods": [], "groups": []}
    if variable:
        r["groups"] = [fresh.mods(rnd) for _ in range(rnd.choice([1, 2]))]
    else:
        r["mods"] = fresh.mods(rnd)
    return r


def regex_of(r):
    def cls(c):
        return c[0] if len(c) == 1 else "[" + "".join(c) + "]"
    if r["style"] == "letter":
        return cls(r["cls"])
    if r["style"] == "lookbehind":
        return f"(?<=[{''.join(r['before'])}])" + cls(r["cls"])
    return r["a"] + r["b"]


def term_key(r):
    return "" if not r["cond"] else (r["cond"][0] if len(r["cond"]) == 1 else "[" + "".join(r["cond"]) + "]")


def pymods(pp, ms):
    from peptacular.proforma.proforma_dataclasses import Mod
    return [Mod(anngen.pyval(m["v"]), m["m"]) for m in ms]


def raw_ok(ms):
    return all(m["m"] == 1 for m in ms)


def shaped_mods(pp, ms, shape):
    """A static rule's modifications in one of the documented input shapes: Mod objects, or (multipliers 1) the bare
    values - a scalar for one modification, a flat list otherwise."""
    if shape == "raw" and raw_ok(ms):
        vals = [anngen.pyval(m["v"]) for m in ms]
        return vals[0] if len(vals) == 1 else vals
    return pymods(pp, ms)


def shaped_groups(pp, groups, shape):
    """A variable rule's alternative groups: nested lists of Mod objects, or (multipliers 1) bare values - for a single
    group the flat-list shorthand ['phospho', 0.98], otherwise a list of lists."""
    if shape == "raw" and all(raw_ok(g) for g in groups):
        vals = [[anngen.pyval(m["v"]) for m in g] for g in groups]
        if len(vals) == 1:
            return vals[0] if len(vals[0]) > 1 else vals[0][0]
        return vals
    return [pymods(pp, g) for g in groups]


def term_arg(rules, shaped, tid):
    """The terminal rules as the caller may write them: a dictionary condition -> value, or - for one rule without a
    condition on the terminal residue - the value alone (a single value, a flat list, a list of groups)."""
    if not rules:
        return None
    if len(rules) == 1 and term_key(rules[0]) == "" and sum(map(ord, tid)) % 2:
        return shaped(rules[0])
    return {term_key(r): shaped(r) for r in rules}


def distinct_keys(rules, keyf):
    seen, out = set(), []
    for r in rules:
        k = keyf(r)
        if k not in seen:
            seen.add(k)
            out.append(r)
    return out


def gen_A(rnd):
    n = rnd.randint(1, 10)
    A = anngen.annotation(rnd, n, n, alphabet=ALPHA, kinds="num", intervals=False, density=0.25,
                          p={"labile": 0.1, "unknown": 0.1, "charge": 0.1, "isotope": 0.1, "static": 0, "nterm": 0.25, "cterm": 0.25})
    return A


def static_event(pp, tid, A, irules, nrules, crules, mode, rt, via, shape="mods"):
    a = anngen.build(pp, A)
    src = anngen.render(A) if via == "str" else a
    if via == "str":
        project.maybe_poison(pp, src, tid, every=2)

    def kw():
        return dict(internal_mods={regex_of(r): shaped_mods(pp, r["mods"], shape) for r in irules},
                    nterm_mods=term_arg(nrules, lambda r: shaped_mods(pp, r["mods"], shape), tid),
                    cterm_mods=term_arg(crules, lambda r: shaped_mods(pp, r["mods"], shape), tid + "c"), mode=mode, return_type=rt)

    def f():
        r1 = pp.apply_static_mods(src, **kw())
        r2 = pp.apply_static_mods(r1, **kw())
        as_ann = lambda x: pp.parse(x) if isinstance(x, str) else x
        return project.ann(as_ann(r1)), project.ann(as_ann(r2))
    o, r = call(f, watchdog=20.0)   # CPU seconds: a builder that piles up forms is reported, not waited for
    blank = anngen.empty("")
    return {"tid": tid, "k": "static", "A": A, "irules": irules, "nrules": nrules, "crules": crules, "mode": mode, "rt": rt,
            "via": via, "shape": shape, "out": o, "res": r[0] if o == "ret" else blank, "twice": r[1] if o == "ret" else blank,
            "argAfter": project.ann(a)}


def variable_event(pp, tid, A, irules, nrules, crules, max_mods, mode, rt, via, shape="mods"):
    a = anngen.build(pp, A)
    src = anngen.render(A) if via == "str" else a
    if via == "str":
        project.maybe_poison(pp, src, tid, every=2)

    def f():
        res = pp.apply_variable_mods(src, {regex_of(r): shaped_groups(pp, r["groups"], shape) for r in irules}, max_mods,
                                     nterm_mods=term_arg(nrules, lambda r: shaped_groups(pp, r["groups"], shape), tid),
                                     cterm_mods=term_arg(crules, lambda r: shaped_groups(pp, r["groups"], shape), tid + "c"),
                                     mode=mode, return_type=rt)
        return list(res)
    # only the library call is timed (CPU seconds): an enumeration that explodes is stopped and logged as "hang" - whether
    # that is a failure is the specification's call (Trace_ModBuilder!FormsBound); results too large to validate are dropped
    o, r = call(f, watchdog=20.0)
    big = o == "ret" and len(r) > 400
    if o == "ret" and not big:
        r = [project.ann(pp.parse(x) if isinstance(x, str) else x) for x in r]
    return {"tid": tid, "k": "variable", "A": A, "irules": irules, "nrules": nrules, "crules": crules, "maxMods": max_mods,
            "mode": mode, "rt": rt, "via": via, "shape": shape, "out": o, "res": r if o == "ret" and not big else [], "big": big}


def run(tier, seed, rep):
    warnings.simplefilter("ignore")
    import peptacular as pp
    rnd = random.Random(seed)
    thorough = tier == "thorough"
    r = core.model_check("MC_ModBuilder", "MC_ModBuilder.cfg", workers=8)
    rep.add_mc("MC_ModBuilder (include/exclude recursion machine yields exactly VariableForms; StaticForm idempotent in skip mode)", r)
    evs = []
    for i in range(20000 if thorough else 2200):
        fresh = Fresh()
        A = gen_A(rnd)
        variable = i % 2 == 1
        irules = distinct_keys([rand_rule(rnd, fresh, variable) for _ in range(rnd.choice([1, 1, 2, 3]))], regex_of)
        nrules = distinct_keys([rand_term_rule(rnd, fresh, variable) for _ in range(rnd.choice([0, 0, 1, 2]))], term_key)
        crules = distinct_keys([rand_term_rule(rnd, fresh, variable) for _ in range(rnd.choice([0, 0, 1, 2]))], term_key)
        mode = rnd.choice(["skip", "skip", "append", "overwrite"])
        rt = rnd.choice(["str", "annotation"])
        via = rnd.choice(["str", "ann"])
        shape = rnd.choice(["mods", "raw"])
        if variable:
            import copy as _copy
            c_ = rnd.random()
            if c_ < 0.15 and len(irules) >= 2:
                # the same group offered by two rules (it is one offered group: each form still comes once)
                irules[1]["groups"][0] = _copy.deepcopy(irules[0]["groups"][0])
            elif c_ < 0.45 and c_ >= 0.3:
                # two alternative groups of one rule (or of two rules) made of the same modification, once and twice: they
                # are equal as SETS of modifications and different as groups - both must be offered
                g0 = irules[0]["groups"][0]
                twice = _copy.deepcopy(g0) + _copy.deepcopy(g0[:1])
                if len(irules) >= 2 and rnd.random() < 0.5:
                    x_, y_ = rnd.sample(sorted(set(A["seq"])) + list(ALPHA[:2]), 2)
                    if x_ != y_:
                        for r_ in irules[:2]:
                            r_["style"], r_["before"], r_["a"], r_["b"] = "letter", [], "", ""
                        irules[0]["cls"], irules[1]["cls"] = [x_], [x_, y_]
                        irules[1]["groups"] = [twice]
                        irules = distinct_keys(irules, regex_of)
                else:
                    irules[0]["groups"] = irules[0]["groups"][:2] + [twice]
            elif c_ < 0.3 and mode != "skip" and A["internal"]:
                # a rule offers exactly what a residue already carries (append / overwrite modes reach modified residues)
                e_ = rnd.choice(A["internal"])
                irules[0]["style"], irules[0]["cls"] = "letter", [A["seq"][e_["i"]]]
                irules[0]["groups"][0] = _copy.deepcopy(e_["mods"])
            evs.append(variable_event(pp, f"v{i}", A, irules, nrules, crules, rnd.choice([0, 1, 1, 2, 3, 4]), mode, rt, via,
                                      shape))
        else:
            evs.append(static_event(pp, f"s{i}", A, irules, nrules, crules, mode, rt, via, shape))
    evs = [e for e in evs if not e.get("big")]
    res = core.validate_traces("Trace_ModBuilder", evs, "C13", min_per_shard=60)
    rep.add_trace("builders", evs, res,
                  sig=lambda e: (e["k"], e["mode"], e["rt"], e["via"], e.get("maxMods"), len(e["A"]["seq"]),
                                 tuple(r_["style"] for r_ in e["irules"]), len(e["nrules"]), len(e["crules"])))
    return rep.finish(rule="seeded peptides of length 1..10 over {S,T,N,G,P,K} with pre-existing residue / terminal "
                           "modifications x 1-3 target rules (letter class, look-behind + class, two-letter literal) with "
                           "1-3 alternative groups x terminal rules with / without residue condition x max_mods 0..4 x "
                           "mode x return type x string / annotation input; result lists above 400 forms are skipped")


def replay(path):
    ev = json.load(open(path))["event"]
    import peptacular as pp
    warnings.simplefilter("ignore")
    if ev["k"] == "static":
        new = [static_event(pp, "R.0", ev["A"], ev["irules"], ev["nrules"], ev["crules"], ev["mode"], ev["rt"], ev["via"],
                            ev.get("shape", "mods"))]
    else:
        new = [variable_event(pp, "R.0", ev["A"], ev["irules"], ev["nrules"], ev["crules"], ev["maxMods"], ev["mode"],
                              ev["rt"], ev["via"], ev.get("shape", "mods"))]
    res = core.validate_traces("Trace_ModBuilder", new, "C13")
    rep = core.Report("C13", "quick", 0)
    rep.add_trace("replay", new, res)
    return rep.finish(rule="replay of one recorded case")
