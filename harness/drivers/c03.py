"""C03 driver: the mass calculator and the elemental-composition calculator agree.
Verdicts: spec/Trace_Mass.tla (AgreeFails / EstimateFails / RowAgreeFails); the mass of the returned composition is
computed by TLC from the independent Nist table."""
from __future__ import annotations

import json
import random
import warnings

from harness import core, anngen, project, obo
from harness.project import call, fix, comp8
from harness.drivers.c02 import massy_annotation, adduct_string, NOARG

ION_TYPES = ["p", "n", "a", "b", "c", "x", "y", "z", "ax", "ay", "az", "bx", "by", "bz", "cx", "cy", "cz", "i"]
LABELS = ["13C", "15N", "18O", "D", "T"]
# one modification, several alternatives: consistent and inconsistent, numeric first and named first
ALTS = ["+42.5|Acetyl", "Acetyl|+42.5", "Obs:+79.978|Phospho", "Phospho|Obs:+79.978", "INFO:x|+12.5|Formula:C2",
        "Formula:C2|+12.5", "U:+15.9|Oxidation", "Oxidation|U:+15.9", "+42.010565|Acetyl", "INFO:a|Methyl|INFO:b",
        "+1.5|Obs:+2.5", "Glycan:Hex|+100", "+100|Glycan:Hex", "M:+14|Methyl", "Acetyl|Formula:C5", "Formula:C5|Acetyl"]



RULE_EXTRA = ('one annotation object serves mass() and comp_mass() in either order; a family with alternatives inside one modification (numeric and named in either order; known finding C03_AlternativePrecedence); XLMOD rows in average mode.')

def cap_multipliers(A, cap):
    for sl in ("labile", "unknown", "nterm", "cterm"):
        for m in A[sl]:
            m["m"] = min(m["m"], cap)
    for e in A["internal"]:
        for m in e["mods"]:
            m["m"] = min(m["m"], cap)
    for iv in A["intervals"]:
        for m in iv["mods"]:
            m["m"] = min(m["m"], cap)


def agree_event(pp, tid, A, ion, zarg, iso, mono, adducts_arg, labelmods, via, kind="agree", extra=None):
    text = anngen.render(A)
    seq = (lambda: text) if via == "str" else (lambda: anngen.build(pp, A))
    kw = dict(ion_type=ion, isotope=iso)
    if zarg != NOARG:
        kw["charge"] = zarg
    if adducts_arg:
        kw["charge_adducts"] = adducts_arg

    if via == "str":
        project.maybe_poison(pp, text, tid)
    project.poison_values(pp, A, tid)
    if via == "ann":
        # one annotation object serves both calculators (the ordinary way to use a parsed annotation), in either order
        obj = anngen.build(pp, A)
        seq = lambda: obj
    f_mass = lambda: pp.mass(seq(), monoisotopic=mono, use_isotope_on_mods=labelmods, **kw)
    f_comp = lambda: pp.comp_mass(seq(), use_isotope_on_mods=labelmods, **kw)
    if len(text) % 2:
        om, m = call(f_mass)
        oc, cd = call(f_comp)
    else:
        oc, cd = call(f_comp)
        om, m = call(f_mass)
    if om == "ret" and oc == "ret":
        stripped = pp.mass(pp.strip_mods(text), monoisotopic=mono, ion_type=ion,
                           charge=kw.get("charge", A["charge"] or 0), isotope=iso)
        o, r = "ret", (m, cd[0], cd[1], m - stripped)
    elif om != "ret" and oc != "ret":
        o, r = "bothraise", None
    else:
        o, r = f"one_path_raises:mass={om},comp={oc}", None
    ev = {"tid": tid, "k": kind, "A": A, "ion": ion, "zarg": zarg, "iso": iso, "mono": mono, "adductsArg": adducts_arg,
          "labelMods": labelmods, "via": via, "out": o}
    if o == "ret":
        ev.update(massRes=fix(r[0]), comp=comp8(r[1]), delta=fix(r[2]), modMass=fix(r[3]))
    else:
        ev.update(massRes=[0, 0], comp=[], delta=[0, 0], modMass=[0, 0])
    if extra:
        ev.update(extra)
    return ev


def estimate_event(pp, tid, A, ion, zarg, via):
    text = anngen.render(A)
    seq = (lambda: text) if via == "str" else (lambda: anngen.build(pp, A))
    kw = dict(ion_type=ion)
    if zarg != NOARG:
        kw["charge"] = zarg

    if via == "ann":
        obj = anngen.build(pp, A)
        seq = lambda: obj

    def f():
        if len(text) % 2:
            return pp.mass(seq(), monoisotopic=True, **kw), pp.comp(seq(), estimate_delta=True, **kw)
        c = pp.comp(seq(), estimate_delta=True, **kw)
        return pp.mass(seq(), monoisotopic=True, **kw), c
    o, r = call(f)
    ev = {"tid": tid, "k": "estimate", "A": A, "ion": ion, "zarg": zarg, "via": via, "out": o, "adductsArg": ""}
    ev.update(massRes=fix(r[0]), comp=comp8(r[1])) if o == "ret" else ev.update(massRes=[0, 0], comp=[])
    return ev


def sig(e):
    A = e["A"]
    return (e["k"], e["ion"], e.get("mono"), (e["zarg"] > 0) - (e["zarg"] < 0) if e["zarg"] != NOARG else "s",
            e.get("iso"), bool(e.get("adductsArg")), bool(A["adducts"]), bool(A["isotope"]), bool(A["static"]),
            bool(A["labile"]), bool(A["unknown"]), bool(A["intervals"]), e.get("db"))


def run(tier, seed, rep):
    warnings.simplefilter("ignore")
    import peptacular as pp
    rnd = random.Random(seed)
    thorough = tier == "thorough"
    r = core.model_check("MC_Mass", "MC_Mass.cfg", workers=16, xmx="6g")
    rep.add_mc("MC_Mass (reference mass = mass of reference composition + delta by construction; laws)", r)
    evs = []
    for i in range(25000 if thorough else 3000):
        A = massy_annotation(rnd, 25 if i % 4 == 0 else 7)
        cap_multipliers(A, 3)        # the property quantifies over multipliers 1..3
        if rnd.random() < 0.3:
            A["isotope"] = [{"v": "s:" + s, "m": 1} for s in rnd.sample(LABELS, rnd.choice([1, 1, 2]))
                            ]
            if len(A["isotope"]) == 2 and {A["isotope"][0]["v"], A["isotope"][1]["v"]} == {"s:D", "s:T"}:
                A["isotope"].pop()
        ion = rnd.choice(ION_TYPES) if rnd.random() < 0.7 else "p"
        zarg = rnd.choice([NOARG, NOARG, 1, 2, 3, 4, -1, -2, -3, 0])
        adducts_arg = adduct_string(rnd) if rnd.random() < 0.12 else ""
        mono = rnd.random() < 0.6
        iso = rnd.choice([0, 0, 1, 2, 3])
        labelmods = bool(A["isotope"]) and rnd.random() < 0.3
        via = "str" if i % 2 else "ann"
        if i % 5 == 4:
            evs.append(estimate_event(pp, f"e{i}", A, ion, zarg, via))
        else:
            evs.append(agree_event(pp, f"a{i}", A, ion, zarg, iso, mono, adducts_arg, labelmods, via))
    res = core.validate_traces("Trace_Mass", evs, "C03")
    rep.add_trace("generated_annotations", evs, res, sig=sig)
    # alternatives inside one modification, numeric and named in either order (C03_AlternativePrecedence)
    evs = []
    for i in range(3000 if thorough else 300):
        A = anngen.empty("".join(rnd.choice("ACDEFGHIKLMNPQRSTVWY") for _ in range(rnd.randint(1, 6))))
        n = len(A["seq"])
        for slot in ("nterm", "cterm"):
            if rnd.random() < 0.3:
                A[slot] = [{"v": "s:" + rnd.choice(ALTS), "m": rnd.choice([1, 1, 2])}]
        for p_ in sorted(rnd.sample(range(n), rnd.randint(0, min(n, 2)))):
            A["internal"].append({"i": p_, "mods": [{"v": "s:" + rnd.choice(ALTS), "m": rnd.choice([1, 1, 2, 3])}]})
        mono = rnd.random() < 0.6
        evs.append(agree_event(pp, f"alt{i}", A, "p", rnd.choice([NOARG, 0, 1, 2, -1]), rnd.choice([0, 0, 1]), mono, "", False,
                               "str" if i % 2 else "ann"))
    res = core.validate_traces("Trace_Mass", evs, "C03")
    rep.add_trace("alternatives_in_one_modification", evs, res, sig=sig)
    # vocabulary sweeps
    evs = []
    urows = [r_ for r_ in obo.unimod() if r_["comp"] is not None]
    prows = [r_ for r_ in obo.psimod() if r_["comp"] is not None and r_["mono"] is not None]
    if not thorough:
        urows, prows = rnd.sample(urows, 500), rnd.sample(prows, 500)
    for db, rows, prefix in (("unimod", urows, "U:"), ("psimod", prows, "M:")):
        for j, row in enumerate(rows):
            name = row["name"]
            spelling = prefix + (name if "[" not in name and "]" not in name and "|" not in name and "#" not in name else row["id"])
            if rnd.random() < 0.4:
                spelling = ("UNIMOD:" if db == "unimod" else "MOD:") + row["id"]
            A = anngen.empty("K")
            A["internal"] = [{"i": 0, "mods": [{"v": "s:" + spelling, "m": rnd.choice([1, 1, 2])}]}]
            for mono in (True, False):
                evs.append(agree_event(pp, f"{db}{j}.{int(mono)}", A, rnd.choice(["p", "b", "y"]), 1, 0, mono, "", False,
                                       "ann", kind="rowagree",
                                       extra={"db": db, "rowId": row["id"], "rowMono": fix(row["mono"]),
                                              "rowAvg": fix(row["avg"]) if row["avg"] is not None else [],
                                              "rowComp": row["comp"]}))
    xrows = obo.xlmod()
    if not thorough:
        xrows = rnd.sample(xrows, 250)
    for j, row in enumerate(xrows):
        name = row["name"]
        spelling = ("X:" + name) if not any(ch in name for ch in "[]|#") and rnd.random() < 0.5 else "XLMOD:" + row["id"]
        A = anngen.empty("K")
        A["internal"] = [{"i": 0, "mods": [{"v": "s:" + spelling, "m": rnd.choice([1, 1, 2])}]}]
        evs.append(agree_event(pp, f"xlmod{j}", A, rnd.choice(["p", "b", "y"]), 1, 0, False, "", False, "ann", kind="rowagree",
                               extra={"db": "xlmod", "rowId": row["id"], "rowMono": fix(row["mono"] or 0.0), "rowAvg": [],
                                      "rowComp": []}))
    res = core.validate_traces("Trace_Mass", evs, "C03")
    rep.add_trace("vocabulary_sweep", evs, res, sig=lambda e: (e["db"], e["rowId"], e["mono"]))
    return rep.finish(rule="seeded annotations (all positions and kinds, multipliers, alternatives, tags, intervals, "
                           "labile/unknown, static rules incl. N-Term/C-Term/multi-residue, labels 13C/15N/18O/D/T) x 18 ion "
                           "types x charge [-3,4] or from the string x isotope 0..3 x mono/avg x adducts in string or "
                           "argument x use_isotope_on_mods; averagine estimation; Unimod / PSI-MOD rows (predicates "
                           "OnlyCHNOPS / RowSelfConsistent evaluated by the spec on the raw row)")


def replay(path):
    ev = json.load(open(path))["event"]
    import peptacular as pp
    warnings.simplefilter("ignore")
    if ev["k"] == "estimate":
        new = [estimate_event(pp, "R.0", ev["A"], ev["ion"], ev["zarg"], ev["via"])]
    else:
        extra = {k: ev[k] for k in ("db", "rowId", "rowMono", "rowAvg", "rowComp") if k in ev}
        new = [agree_event(pp, "R.0", ev["A"], ev["ion"], ev["zarg"], ev["iso"], ev["mono"], ev["adductsArg"],
                           ev["labelMods"], ev["via"], kind=ev["k"], extra=extra)]
    res = core.validate_traces("Trace_Mass", new, "C03")
    rep = core.Report("C03", "quick", 0)
    rep.add_trace("replay", new, res)
    return rep.finish(rule="replay of one recorded case")
