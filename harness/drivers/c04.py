"""C04 driver: fragmentation enumerates every ion once and agrees with the mass calculator.
Verdicts: spec/Trace_Fragment.tla (FragmentFails) with the expected ion set from spec/Fragment.tla."""
from __future__ import annotations

import json
import random
import warnings

from harness import core, anngen, project
from harness.project import call, fix

TYPES = ["a", "b", "c", "x", "y", "z", "ax", "ay", "az", "bx", "by", "bz", "cx", "cy", "cz", "i"]
RES = "ACDEFGHIKLMNPQRSTVWY"
WATER = {"cls": list("STED"), "val6": -18010560, "regex": "[STED]", "val": -18.01056}
AMMONIA = {"cls": list("RKNQ"), "val6": -17026550, "regex": "[RKNQ]", "val": -17.02655}
CUSTOM = [{"cls": list("AG"), "val6": -5500000, "regex": "[AG]", "val": -5.5},
          {"cls": ["P"], "val6": 12250000, "regex": "[P]", "val": 12.25},
          {"cls": list("KR"), "val6": -30010000, "regex": "[KR]", "val": -30.01},
          # rules that look at an edge of the ion (of the ion's own residues)
          {"cls": list("QE"), "val6": -17026550, "regex": "^[QE]", "val": -17.02655, "edge": "first"},
          {"cls": list("KR"), "val6": -9250000, "regex": "[KR]$", "val": -9.25, "edge": "last"},
          {"cls": list("ST"), "val6": -18010560, "regex": "(?<!A)[ST]", "val": -18.01056, "edge": "notafterA"}]



RULE_EXTRA = ('one annotation object serves all six return types; the recorded Fragmenter answer is its second one; charge lists in any order with gaps; with a precision the reported mass and m/z lie within half a unit of the last place of the full-precision values.')

def gen(rnd, maxlen):
    n = rnd.randint(1, maxlen)
    A = anngen.annotation(rnd, n, n, alphabet=RES, kinds="massy2", intervals=False,
                          p={"labile": 0, "unknown": 0, "charge": 0, "isotope": 0, "static": 0, "nterm": 0.3, "cterm": 0.3})
    if rnd.random() < 0.3:
        A["static"] = [{"v": "s:" + s, "m": 1} for s in rnd.sample(anngen.STATICS_MASSY, rnd.choice([1, 2]))]
    if rnd.random() < 0.25:
        A["isotope"] = [{"v": "s:" + s, "m": 1} for s in rnd.sample(["13C", "15N", "18O", "D"], rnd.choice([1, 1, 2]))]
    return A


def _key(f):
    return [f.ion_type, f.start, f.end, f.charge, f.isotope, int(round(f.loss * 1e6))]


def fragment_event(pp, tid, A, types, charges, isotopes, rules, max_losses, mono, prec, via):
    text = anngen.render(A)
    n = len(A["seq"])
    water = any(r is WATER or r["regex"] == WATER["regex"] for r in rules)
    ammonia = any(r["regex"] == AMMONIA["regex"] for r in rules)
    custom = [r for r in rules if r["regex"] not in (WATER["regex"], AMMONIA["regex"])]

    # via = "ann": ONE annotation object serves every call of the event (parse once, fragment many times)
    obj = None if via == "str" else anngen.build(pp, A)
    if via == "str":
        project.maybe_poison(pp, text, tid)

    def src():
        return text if via == "str" else obj

    def kw(rt):
        return dict(ion_types=list(types) if len(types) > 1 else types[0], charges=list(charges),
                    isotopes=list(isotopes), water_loss=water, ammonia_loss=ammonia,
                    losses=[(r["regex"], r["val"]) for r in custom] or None, max_losses=max_losses, return_type=rt,
                    precision=None if prec < 0 else prec)

    def f():
        frs = pp.fragment(src(), monoisotopic=mono, **kw("fragment"))
        others = {rt: pp.fragment(src(), monoisotopic=mono, **kw(rt)) for rt in ("mass", "mz", "label", "mass-label", "mz-label")}
        # a Fragmenter is built to be used many times: what is recorded is its SECOND answer
        fragmenter = pp.Fragmenter(src(), monoisotopic=mono)
        fragmenter.fragment(**kw("mass"))
        other = dict(kw("fragment"))
        other["max_losses"] = 1 if max_losses > 1 else 2        # the same question with another loss budget first
        fragmenter.fragment(**other)
        fobj = fragmenter.fragment(**kw("fragment"))
        rec = []
        for fr in frs:
            m = pp.mass(fr.sequence, charge=fr.charge, ion_type=fr.ion_type, monoisotopic=mono, isotope=fr.isotope,
                        loss=fr.loss, precision=None if prec < 0 else prec)
            z = pp.mz(fr.sequence, charge=fr.charge, ion_type=fr.ion_type, monoisotopic=mono, isotope=fr.isotope,
                      loss=fr.loss, precision=None if prec < 0 else prec)
            mf = pp.mass(fr.sequence, charge=fr.charge, ion_type=fr.ion_type, monoisotopic=mono, isotope=fr.isotope, loss=fr.loss)
            zf = pp.mz(fr.sequence, charge=fr.charge, ion_type=fr.ion_type, monoisotopic=mono, isotope=fr.isotope, loss=fr.loss)
            rec.append((m, z, mf, zf))
        return frs, others, fobj, rec
    o, r = call(f)
    ev = {"tid": tid, "k": "fragment", "A": A, "types": list(types), "charges": list(charges), "isotopes": list(isotopes),
          "rules": [{"cls": r_["cls"], "val6": r_["val6"], "regex": r_["regex"], "edge": r_.get("edge", "any")} for r_ in rules],
          "maxLosses": max_losses,
          "mono": mono, "prec": prec, "via": via, "out": o}
    if o != "ret":
        ev.update(frags=[], masses=[], mzs=[], labels=[], massLabels=[], mzLabels=[], fragmenter=[])
        return ev
    frs, others, fobj, rec = r
    ev["frags"] = [{"t": fr.ion_type, "s": fr.start, "e": fr.end, "z": fr.charge, "iso": fr.isotope,
                    "loss6": int(round(fr.loss * 1e6)), "lossText": str(fr.loss), "mass": fix(fr.mass), "mz": fix(fr.mz),
                    "recMass": fix(m), "recMz": fix(z), "fullMass": fix(mf), "fullMz": fix(zf),
                    "seq": fr.sequence, "label": fr.label, "num": str(fr.number)}
                   for fr, (m, z, mf, zf) in zip(frs, rec)]
    ev["masses"] = [fix(x) for x in others["mass"]]
    ev["mzs"] = [fix(x) for x in others["mz"]]
    ev["labels"] = list(others["label"])
    ev["massLabels"] = [[fix(a), b] for a, b in others["mass-label"]]
    ev["mzLabels"] = [[fix(a), b] for a, b in others["mz-label"]]
    ev["fragmenter"] = [[_key(fr), fix(fr.mass)] for fr in fobj]
    return ev


def _job(args):
    import peptacular as pp
    warnings.simplefilter("ignore")
    return fragment_event(pp, *args)


def choose_call(rnd, n):
    r = rnd.random()
    if r < 0.35:
        types = [rnd.choice(TYPES)]
    elif r < 0.7:
        types = rnd.sample(TYPES, 2)
    else:
        types = rnd.sample(TYPES, rnd.randint(3, 6))
    heavy = any(len(t) == 2 for t in types) and n > 7
    charges = rnd.sample([1, 2, 3, 4], 1 if heavy else rnd.choice([1, 1, 2, 3]))      # any order, gaps allowed
    if rnd.random() < 0.5:
        charges = sorted(charges)
    isotopes = sorted(rnd.sample([0, 1, 2, 3], 1 if heavy else rnd.choice([1, 1, 2])))
    rules = []
    if rnd.random() < 0.35:
        rules.append(WATER)
    if rnd.random() < 0.25:
        rules.append(AMMONIA)
    if rnd.random() < 0.25:
        rules.append(rnd.choice(CUSTOM))
    max_losses = rnd.choice([1, 1, 2, 3]) if not heavy else 1
    return types, charges, isotopes, rules, max_losses


def run(tier, seed, rep):
    warnings.simplefilter("ignore")
    import peptacular as pp
    rnd = random.Random(seed)
    thorough = tier == "thorough"
    r = core.model_check("MC_Series", "MC_Series.cfg", workers=8)
    rep.add_mc("MC_Series (span counts per ion type, spans well formed)", r)
    jobs = []
    for i in range(9000 if thorough else 900):
        A = gen(rnd, 12 if i % 3 == 0 else 6)
        types, charges, isotopes, rules, ml = choose_call(rnd, len(A["seq"]))
        jobs.append((f"f{i}", A, types, charges, isotopes, rules, ml, rnd.random() < 0.7,
                     rnd.choice([-1, -1, 0, 2, 4, 6, 3]), "str" if i % 2 else "ann"))
    evs = core.pmap(_job, jobs)
    res = core.validate_traces("Trace_Fragment", evs, "C04", per_shard_max=300, min_per_shard=20)
    nfr = sum(len(e["frags"]) for e in evs)
    rep.add_trace("fragmentations", evs, res,
                  sig=lambda e: (tuple(sorted(e["types"])), tuple(e["charges"]), tuple(e["isotopes"]),
                                 tuple(r_["regex"] for r_ in e["rules"]), e["maxLosses"], e["mono"], e["prec"],
                                 len(e["A"]["seq"])))
    return rep.finish(rule="seeded peptides of length 1..12 (residue / terminal / static / isotope-label modifications) x "
                           "non-empty subsets of the 16 ion types (singles, pairs, 3-6) x charge lists in [1,4] x isotope "
                           "lists in [0,3] x water / ammonia / custom single-class losses, max_losses 1..3 x mono/avg x "
                           "precision x all six return types x Fragmenter", extra={"ions_checked": nfr})


def replay(path):
    ev = json.load(open(path))["event"]
    import peptacular as pp
    warnings.simplefilter("ignore")
    table = {r_["regex"]: r_ for r_ in [WATER, AMMONIA] + CUSTOM}
    new = [fragment_event(pp, "R.0", ev["A"], ev["types"], ev["charges"], ev["isotopes"],
                          [table[r_["regex"]] for r_ in ev["rules"]], ev["maxLosses"], ev["mono"], ev["prec"], ev["via"])]
    res = core.validate_traces("Trace_Fragment", new, "C04")
    rep = core.Report("C04", "quick", 0)
    rep.add_trace("replay", new, res)
    return rep.finish(rule="replay of one recorded case")
