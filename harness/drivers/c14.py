"""C14 driver: isotopic distributions are normalised, centred on the right masses and complete.
Verdicts: spec/Trace_Isotope.tla (masses from the independent Nist table via spec/Chem.tla)."""
from __future__ import annotations

import json
import random
import warnings

from harness import core
from harness.project import call, fix, count8
from harness.drivers.c15 import e4

LIGHT = ["C", "H", "N", "O", "S", "P"]
OTHER = ["Se", "Cl", "Br", "Fe"]



RULE_EXTRA = ('exact multinomial expansion for compositions of <= 12 atoms (TLC enumerates the isotopologues); completeness under min_abundance_threshold (large molecules); at most max_isotopes peaks; masses on the resolution grid, one peak per mass; lightest peak of the neutron-offset mass view.')

def pattern(p):
    return [{"m": fix(m), "a": {k: v for k, v in count8(max(a, 0.0)).items() if k != "neg"}} for m, a in p]


def rand_comp(rnd, allow_other):
    c = {}
    for el in rnd.sample(LIGHT, rnd.randint(1, 5)):
        r = rnd.random()
        c[el] = rnd.choice([0, 1, 2, 3, 6, 12]) if r < 0.55 else rnd.randint(0, 30) if r < 0.8 else \
            rnd.randint(0, 200) if r < 0.9 else round(rnd.uniform(0, 60), rnd.choice([1, 2, 4]))
    if allow_other and rnd.random() < 0.3:
        c[rnd.choice(OTHER)] = rnd.randint(1, 4)
    if rnd.random() < 0.2:      # isotope-labelled elements
        c[rnd.choice(["13C", "2H", "D", "15N", "18O"])] = rnd.randint(1, 6)
    if rnd.random() < 0.3:
        c[rnd.choice(["e", "p", "n"])] = rnd.choice([-2, -1, 1, 2, 3])
    if all(v == 0 for k, v in c.items() if k not in "epn"):
        c["C"] = 1
    return c


def pattern_event(pp, tid, c, opts):
    kw = dict(opts)
    # one composition object asked twice (the recorded pattern is the second answer); the object is the caller's
    arg = dict(c)
    call(lambda: pp.isotopic_distribution(arg, **kw))
    o, p = call(lambda: pp.isotopic_distribution(arg, **kw))
    if arg != c:
        o = "argument_changed"
    r = opts.get("distribution_resolution", 5)
    pruned = opts.get("max_isotopes") is not None or (opts.get("min_abundance_threshold") or 0) > 0
    mass_view = not opts.get("use_neutron_count", False)
    ev = {"tid": tid, "k": "pattern", "comp": [[k, e4(v)] for k, v in c.items()], "opts": {k: str(v) for k, v in opts.items()},
          "requested": fix(opts.get("distribution_abundance", 1.0)), "isSum": bool(opts.get("is_abundance_sum", False)),
          "pruned": bool(pruned), "massView": bool(mass_view and r >= 3),
          "maxIsotopes": int(opts["max_isotopes"]) if opts.get("max_isotopes") is not None else -1,
          # masses are rounded to `distribution_resolution` decimals while the pattern is built (mass view, whole atoms,
          # no e/p/n shift added afterwards): a multiple of 10^-r each, and no two peaks on one mass
          "gridDecimals": r if (mass_view and all(float(v).is_integer() for v in c.values())
                                and not any(k in c for k in "epn")) else -1,
          # neutron-offset view reported as masses: lightest peak = offset 0 = the monoisotopic mass (integer counts;
          # for fractional counts the reported value is pinned by a doctest, see C14_FractionalMean)
          "ncMassView": bool(opts.get("use_neutron_count") and opts.get("output_masses_for_neutron_offset")
                             and all(float(v).is_integer() for v in c.values())),
          "lightestFirst": all(k in LIGHT + ["e", "p", "n", "13C", "2H", "D", "15N", "18O"] for k in c), "unlabelled": True,
          "resolutionSlack": int(10 ** (6 - r)) * max(1, len(c)) if r >= 3 else 0, "out": o,
          "pattern": pattern(p) if o == "ret" else []}
    # "the average mass of the composition" as the library itself reports it (chem_mass, average mode): a fact of its own
    oa, av = call(lambda: pp.chem_mass(dict(c), monoisotopic=False))
    ev["hasLibAvg"] = bool(oa == "ret")
    ev["libAvg"] = fix(av) if oa == "ret" else [0, 0]
    return ev


def run(tier, seed, rep):
    warnings.simplefilter("ignore")
    import peptacular as pp
    rnd = random.Random(seed)
    thorough = tier == "thorough"
    r = core.model_check("MC_Isotope", "MC_Isotope.cfg", workers=4)
    rep.add_mc("MC_Isotope (fixed-point abundance arithmetic used by the pattern clauses)", r)
    evs = []
    for i in range(6000 if thorough else 700):
        c = rand_comp(rnd, True)
        opts = {}
        if rnd.random() < 0.3:
            opts["max_isotopes"] = rnd.randint(1, 20)
        if rnd.random() < 0.3:
            opts["min_abundance_threshold"] = rnd.choice([0, 1e-6, 1e-3])
        opts["distribution_resolution"] = rnd.choice([5, 5, 0, 1, 2, 3, 4, 6])
        if rnd.random() < 0.25:
            opts["use_neutron_count"] = True
            opts["output_masses_for_neutron_offset"] = rnd.random() < 0.5
        elif rnd.random() < 0.25:
            # the flag for the other view, set while the mass view is asked for: it has nothing to act on
            opts["output_masses_for_neutron_offset"] = True
        opts["distribution_abundance"] = rnd.choice([1.0, 1.0, 100.0, 0.5, 1e6, 12345.0])
        opts["is_abundance_sum"] = rnd.random() < 0.4
        ev = pattern_event(pp, f"p{i}", c, opts)
        if len(ev["pattern"]) <= 1200:       # very large patterns are left to the thorough tier's budget
            evs.append(ev)
    for i in range(2500 if thorough else 300):
        c = {k: v for k, v in rand_comp(rnd, False).items() if k not in "epn"}
        c = {k: (int(round(v)) if v else 0) for k, v in c.items()}
        if all(v == 0 for v in c.values()):
            c["C"] = 2

        def f():
            a = pp.isotopic_distribution(dict(c), is_abundance_sum=True)
            b = pp.isotopic_distribution(dict(c), is_abundance_sum=True, use_neutron_count=True)
            return a, b
        o, r_ = call(f)
        ev = {"tid": f"b{i}", "k": "bins", "comp": [[k, e4(v)] for k, v in c.items()], "out": o}
        if o == "ret" and len(r_[0]) > 1200:
            continue
        if o == "ret":
            ev.update(mass=pattern(r_[0]), m0=fix(r_[0][0][0]),
                      offsets=[{"k": int(k), "a": {kk: vv for kk, vv in count8(a).items() if kk != "neg"}} for k, a in r_[1]])
        else:
            ev.update(mass=[], m0=[0, 0], offsets=[])
        evs.append(ev)
    # completeness under a threshold: the thresholded pattern is the full pattern minus the peaks whose abundance
    # relative to the largest peak is below the threshold (large molecules: the base peak is far below 100 %)
    for i in range(1500 if thorough else 150):
        c = {"C": rnd.randint(20, 200), "H": rnd.randint(30, 300), "N": rnd.randint(0, 50), "O": rnd.randint(0, 60),
             "S": rnd.randint(0, 4)}
        t = rnd.choice([1e-6, 1e-3, 1e-3, 0.01])
        res_ = rnd.choice([1, 2, 3])
        use_nc = rnd.random() < 0.3

        def f():
            full = pp.isotopic_distribution(dict(c), distribution_resolution=res_, use_neutron_count=use_nc)
            thr = pp.isotopic_distribution(dict(c), min_abundance_threshold=t, distribution_resolution=res_,
                                           use_neutron_count=use_nc)
            return full, thr
        o, r_ = call(f)
        if o == "ret" and len(r_[0]) > 500:
            continue
        a8 = lambda a: int(round(a * 1e8))
        evs.append({"tid": f"t{i}", "k": "threshold", "comp": [[k, e4(v)] for k, v in c.items()], "t8": a8(t), "out": o,
                    "full": [{"m": fix(m), "a8": a8(a)} for m, a in r_[0]] if o == "ret" else [],
                    "thr": [{"m": fix(m), "a8": a8(a)} for m, a in r_[1]] if o == "ret" else []})
    # exact multinomial expansion for compositions of at most 12 atoms (the isotopologues are enumerated by TLC)
    for i in range(2500 if thorough else 90):
        heavy = rnd.random() < 0.3
        total = rnd.randint(1, 6 if heavy else 12)
        c = {}
        for _ in range(total):
            el = rnd.choice("CCCHHHHNOOSP")
            c[el] = c.get(el, 0) + 1
        if heavy:      # an element whose lightest isotope is not the only abundant one (fewer other atoms: the expansion is wide)
            el = rnd.choice(["Cl", "Br", "Fe", "Se"])
            c[el] = 1 if el == "Se" else rnd.choice([1, 1, 2])
        o, p = call(lambda: pp.isotopic_distribution(dict(c)))
        mx = max((a for _, a in p), default=1.0) if o == "ret" else 1.0
        evs.append({"tid": f"x{i}", "k": "exact", "comp": [[k, v] for k, v in sorted(c.items())], "out": o,
                    "peaks": [{"m": fix(m), "a8": int(round(a / mx * 1e8))} for m, a in p] if o == "ret" else []})
    for i in range(3000 if thorough else 400):
        def dist():
            return [(rnd.randint(800, 830) / 8.0, rnd.randint(1, 64) / 64.0) for _ in range(rnd.randint(0, 6))]
        d1, d2 = sorted(dist()), sorted(dist())
        prec = rnd.choice([None, None, 0, 1, 2, 3])
        o, r_ = call(lambda: pp.merge_isotopic_distributions(list(d1), list(d2), precision=prec))
        evs.append({"tid": f"m{i}", "k": "merge", "d1": pattern(d1), "d2": pattern(d2), "prec": -1 if prec is None else prec, "out": o,
                    "res": pattern(r_) if o == "ret" else []})
    res = core.validate_traces("Trace_Isotope", evs, "C14", min_per_shard=40)
    rep.add_trace("patterns", evs, res,
                  sig=lambda e: (e["k"], tuple(sorted(p[0] for p in e.get("comp", []))), json.dumps(e.get("opts", {}), sort_keys=True)[:80]))
    return rep.finish(rule="seeded compositions over C,H,N,O,S,P (counts 0..200 integer and fractional; Se/Cl/Br/Fe for the "
                           "normalisation and mean clauses) with optional e/p/n x the option grid (max_isotopes, "
                           "min_abundance_threshold, distribution_resolution 0..6, neutron-count views, requested "
                           "abundance, sum/max scaling); neutron view vs binned mass view; merging of dyadic patterns")


def replay(path):
    ev = json.load(open(path))["event"]
    res = core.validate_traces("Trace_Isotope", [ev], "C14")
    rep = core.Report("C14", "quick", 0)
    rep.add_trace("replay (recorded event re-validated)", [ev], res)
    return rep.finish(rule="replay of one recorded event")
