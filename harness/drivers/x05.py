"""X05 (not one of the listed properties; part of the growing specification, see DESIGN.md §12.8c): the numeric helpers of
mass_calc.py called directly - adjust_mass, adjust_mz, ppm_error, dalton_error - and the two converters between a
charge-carrier text and its dictionary, against spec/Arith.tla.
Stage A: MC_Arith (the per-type table of Arith.tla is the chemistry of Fragment.tla wherever that reference has an opinion;
one more charge is one more proton; write-then-read of carriers returns the summed dictionary).
Stage C: the real functions on the grid below.  Verdicts: spec/Trace_Arith.tla."""
from __future__ import annotations

import itertools
import random
import warnings

from harness import core
from harness.project import call, fix

RULE_EXTRA = ""
ION_TYPES = ["p", "n", "a", "b", "c", "x", "y", "z", "ax", "ay", "az", "bx", "by", "bz", "cx", "cy", "cz", "i"]
ADDUCTS = ["", "+H+", "+Na+", "+Na+,+H+", "+2Na+", "+K+,-H+", "+Mg2+", "+e-", "+2H+,+Na+", "-H+", "+3H+", "+Ca2+,+H+", "+Cl-"]
IONS = ["Na+", "H+", "Mg2+", "e-", "I-", "K+", "Ca2+", "Cl-", "Fe3+", "H-"]
READ_ALPHABET = ["+", "-", "2", "1", "N", "a", "H", ",", "e"]
BASES = ["0", "100", "799.359964", "1000.5", "2345.678901", "18.010565", "0.000001", "12345.6789"]
LOSSES = ["0", "-18.010565", "-17.026549", "1.5", "-97.976896"]


def cls(o):
    return o[4:] if o.startswith("exc:") else o


def pairs(d):
    return [[k, int(v)] for k, v in d.items()]


def run(tier, seed, rep):
    warnings.simplefilter("ignore")
    import peptacular as pp
    rnd = random.Random(seed)
    thorough = tier == "thorough"
    r = core.model_check("MC_Arith", "MC_Arith.cfg", workers=4)
    rep.add_mc("MC_Arith (type table = Fragment.tla chemistry; charge step = proton; carriers write/read)", r)
    evs = []
    i = 0
    # adjust_mass: every ion type x both modes x charges, with seeded base / isotope / loss / carriers / precision
    for ion, mono, z in itertools.product(ION_TYPES, [True, False], [1, 2, 3, 5]):
        for _ in range(6 if thorough else 2):
            base, loss = rnd.choice(BASES), rnd.choice(LOSSES)
            iso = rnd.choice([0, 0, 1, 2, -1])
            ad = rnd.choice(ADDUCTS) if rnd.random() < 0.5 else ""
            prec = rnd.choice([-1, -1, 0, 1, 3, 5, 8])
            kw = dict(ion_type=ion, monoisotopic=mono, isotope=iso, loss=float(loss), precision=None if prec < 0 else prec)
            if ad:
                kw["charge_adducts"] = ad
            o, v = call(pp.adjust_mass, float(base), z, **kw)
            evs.append({"tid": f"a{i}", "k": "adjust", "base": fix(base), "z": z, "ion": ion, "mono": int(mono), "iso": iso,
                        "loss": fix(loss), "adducts": ad, "prec": prec, "out": cls(o), "res": fix(v) if o == "ret" else [0, 0]})
            i += 1
    # precursors also with zero, negative and absent charge (None means 0)
    for ion, mono, z in itertools.product(["p", "n"], [True, False], [0, -1, -2, None]):
        base = rnd.choice(BASES)
        o, v = call(pp.adjust_mass, float(base), z, ion_type=ion, monoisotopic=mono)
        evs.append({"tid": f"a{i}", "k": "adjust", "base": fix(base), "z": z or 0, "ion": ion, "mono": int(mono), "iso": 0,
                    "loss": [0, 0], "adducts": "", "prec": -1, "out": cls(o), "res": fix(v) if o == "ret" else [0, 0]})
        i += 1
    for base, z, prec in itertools.product(BASES, [None, 0, 1, 2, 3, 7, -1, -2], [-1, 0, 2, 5, 8]):
        o, v = call(pp.adjust_mz, float(base), z, None if prec < 0 else prec)
        evs.append({"tid": f"m{i}", "k": "mz", "base": fix(base), "z": z or 0, "prec": prec, "out": cls(o),
                    "res": fix(v) if o == "ret" else [0, 0]})
        i += 1
    for _ in range(600 if thorough else 150):
        theo = rnd.choice([1, 100, 500, 1000, 2500, 4999])
        delta = rnd.choice(["0", "0.001", "-0.001", "0.01", "0.123456", "-0.5", "0.000005", "0.25"])
        prec = rnd.choice([-1, 0, 1, 2, 4, 6])
        expt = str(__import__("decimal").Decimal(theo) + __import__("decimal").Decimal(delta))
        o, v = call(pp.ppm_error, float(theo), float(expt), None if prec < 0 else prec)
        evs.append({"tid": f"p{i}", "k": "ppm", "theo": theo, "expt": fix(expt), "prec": prec, "out": cls(o),
                    "res": fix(v) if o == "ret" else [0, 0]})
        i += 1
        t2 = rnd.choice(BASES)
        e2 = str(__import__("decimal").Decimal(t2) + __import__("decimal").Decimal(delta))
        o, v = call(pp.dalton_error, float(t2), float(e2), None if prec < 0 else prec)
        evs.append({"tid": f"d{i}", "k": "dalton", "theo": fix(t2), "expt": fix(e2), "prec": prec, "out": cls(o),
                    "res": fix(v) if o == "ret" else [0, 0]})
        i += 1
    # carriers: dictionaries of <= 3 ions with small counts, written and read back
    for n in range(1, 4):
        for ions in itertools.permutations(IONS, n):
            if n == 3 and rnd.random() < (0.7 if thorough else 0.95):
                continue
            d = {x: rnd.choice([1, -1, 2, 3, -2, 10, 0]) for x in ions}
            o, v = call(pp.write_charge_adducts, d)
            ev = {"tid": f"w{i}", "k": "write", "pairs": pairs(d), "out": cls(o), "text": "", "again": []}
            if o == "ret":
                ev["text"] = v.val if isinstance(v.val, str) else repr(v.val)
                o2, w = call(pp.parse_charge_adducts, v if rnd.random() < 0.5 else v.val)
                ev["again"] = pairs(w) if o2 == "ret" else [["raised", 0]]
            evs.append(ev)
            i += 1
    maxlen = 6 if thorough else 5
    for n in range(1, maxlen + 1):
        for t in itertools.product(READ_ALPHABET, repeat=n):
            if n >= 5 and rnd.random() < (0.8 if thorough else 0.9):
                continue
            text = "".join(t)
            o, v = call(pp.parse_charge_adducts, text)
            evs.append({"tid": f"r{i}", "k": "read", "text": text, "out": cls(o), "res": pairs(v) if o == "ret" else []})
            i += 1
    res = core.validate_traces("Trace_Arith", evs, "X05", min_per_shard=300)
    rep.add_trace("numeric_helpers", evs, res, sig=lambda e: (e["k"], e["out"], e.get("ion", ""), e.get("mono", 0), e.get("prec", 0),
                                                              len(e.get("text", "")), bool(e.get("adducts", ""))))
    return rep.finish(rule="adjust_mass: 18 ion types x 2 modes x charges {1,2,3,5} with seeded base, isotope, loss, carrier text and "
                           "precision, precursors also at charge 0/-1/-2/None; adjust_mz: 8 masses x 8 charges x 5 precisions; "
                           "ppm_error / dalton_error on seeded pairs; carrier dictionaries of <= 3 ions from 10 written and read back; "
                           f"every carrier text of <= 4 characters over 9 (a sample of the longer ones up to {maxlen})")


def replay(path):
    raise SystemExit("X05 has no replay")
