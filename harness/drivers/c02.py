"""C02 driver: peptide mass and m/z equal the sum of their physical parts.
Verdicts: spec/Trace_Mass.tla; the expected mass is computed by TLC from Mass.tla / Mods.tla / Chem.tla / Nist.tla."""
from __future__ import annotations

import json
import random
import warnings

from harness import core, anngen, project, obo
from harness.project import call, fix

RES24 = "ACDEFGHIKLMNPQRSTVWYUOXJ"
ADDUCT_IONS = ["H+", "Na+", "K+", "Li+", "Mg2+", "Ca2+", "Cl-", "I-", "e-", "D+", "T+"]     # isotope symbols are ions too
NOARG = -99



RULE_EXTRA = ('one object asked twice; repeated monosaccharide names; tagged bare numbers (21#g1); terminal targets spelled N-term / C-term.')

def adduct_string(rnd):
    parts = []
    for ion in rnd.sample(ADDUCT_IONS, rnd.choice([1, 1, 2, 3])):
        c = rnd.choice([-2, -1, 1, 1, 2, 3])
        parts.append(("+" if c > 0 else "-") + (str(abs(c)) if abs(c) != 1 else "") + ion)
    return ",".join(parts)


def massy_annotation(rnd, maxlen=40, labels=False, intervals=True):
    A = anngen.annotation(rnd, 1, maxlen, alphabet=RES24, kinds="massy2", intervals=intervals,
                          p={"isotope": 0, "static": 0, "charge": 0, "unknown": 0.25, "labile": 0.25, "interval": 0.3})
    if rnd.random() < 0.3:
        A["static"] = [{"v": "s:" + s, "m": 1} for s in rnd.sample(anngen.STATICS_MASSY, rnd.choice([1, 1, 2]))]
    if labels and rnd.random() < 0.2:
        A["isotope"] = [{"v": "s:" + rnd.choice(["13C", "15N", "18O", "D", "34S"]), "m": 1}]
    if rnd.random() < 0.4:
        A["charge"] = rnd.choice([-4, -3, -2, -1, 1, 2, 3, 4, 5, 6])
        if rnd.random() < 0.4:
            A["adducts"] = [{"v": "s:" + adduct_string(rnd), "m": 1}]
    return A


def mass_event(pp, tid, A, call_, zarg, adducts_arg, mono, iso, loss, prec, via):
    text = anngen.render(A)
    seq = text if via == "str" else anngen.build(pp, A)
    if via == "str":
        project.maybe_poison(pp, text, tid)
    project.poison_values(pp, A, tid)
    kw = dict(ion_type="p", monoisotopic=mono, isotope=iso, loss=loss, precision=None if prec < 0 else prec)
    if zarg != NOARG:
        kw["charge"] = zarg
    if adducts_arg:
        kw["charge_adducts"] = adducts_arg
    f = pp.mass if call_ == "mass" else pp.mz
    o, r = call(lambda: f(seq, **kw))
    o2, r2 = call(lambda: f(seq, **kw))      # the same call again on the same object / string
    return {"tid": tid, "k": "mass", "A": A, "text": text, "call": call_, "zarg": zarg, "adductsArg": adducts_arg,
            "mono": mono, "iso": iso, "loss": fix(loss), "prec": prec, "via": via, "out": o,
            "res": fix(r) if o == "ret" else [0, 0], "res2": fix(r2) if o2 == "ret" else [-1, 0]}


def row_event(pp, tid, row, slot, mult, mono, spelling):
    rnd = random.Random(tid)
    n = rnd.randint(1, 6)
    A0 = anngen.empty(rnd.choice("ACDEFGHIKLMNPQRSTVWY") for _ in range(n))
    A = json.loads(json.dumps(A0))
    m = {"v": "s:" + spelling, "m": mult}
    if slot == "internal":
        A["internal"] = [{"i": rnd.randrange(n), "mods": [m]}]
    elif slot == "interval":
        A["intervals"] = [{"s": 0, "e": n, "amb": False, "mods": [m]}]
    elif slot == "static":
        A["static"] = [{"v": f"s:[{spelling}]@N-Term", "m": 1}]
        mult = 1
    else:
        A[slot] = [m]
    o, r = call(lambda: pp.mass(anngen.build(pp, A), monoisotopic=mono))
    return {"tid": tid, "k": "rowmass", "A0": A0, "slot": slot, "mult": mult, "mono": mono, "spelling": spelling,
            "rowId": row["id"], "rowMono": fix(row["mono"]), "rowAvg": fix(row["avg"]), "out": o,
            "res": fix(r) if o == "ret" else [0, 0]}


def sig(e):
    if e["k"] == "rowmass":
        return ("row", e["rowId"], e["slot"], e["mono"])
    A = e["A"]
    kinds = tuple(sorted({m["v"].split(":")[1][:4] if m["v"][0] == "s" else m["v"][0]
                          for sl in ("labile", "unknown", "nterm", "cterm") for m in A[sl]}))
    return (e["call"], e["mono"], e["zarg"], bool(e["adductsArg"]), bool(A["adducts"]), e["iso"], e["prec"],
            tuple(sorted(k for k in ("labile", "static", "unknown", "nterm", "cterm", "internal", "intervals") if A[k])),
            kinds)


def run(tier, seed, rep):
    warnings.simplefilter("ignore")
    import peptacular as pp
    rnd = random.Random(seed)
    thorough = tier == "thorough"
    r = core.model_check("MC_Mass", "MC_Mass.cfg", workers=16, xmx="6g")
    rep.add_mc("MC_Mass (laws of the reference mass: additivity, linearity in multipliers, slot invariance, m/z)", r)
    evs = []
    for i in range(30000 if thorough else 3500):
        A = massy_annotation(rnd, 40 if i % 4 == 0 else 8, labels=True)
        zarg = rnd.choice([NOARG, NOARG, 0, 1, 2, 3, -1, -2, -4, 6])
        adducts_arg = adduct_string(rnd) if rnd.random() < 0.15 else ""
        mono = rnd.random() < 0.6
        iso = rnd.choice([0, 0, 1, 2, 3, 4])
        loss = rnd.choice([0.0, 0.0, -18.01056, 1.5, -17.02655, 100.25])
        prec = rnd.choice([-1, -1, 0, 1, 2, 3, 4, 5, 6])
        evs.append(mass_event(pp, f"m{i}", A, "mass" if i % 3 else "mz", zarg, adducts_arg, mono, iso, loss, prec,
                              "str" if i % 2 else "ann"))
    res = core.validate_traces("Trace_Mass", evs, "C02")
    rep.add_trace("feature_cross_product", evs, res, sig=sig)
    # Unimod sweep: every entry with its tabulated mass as the a-priori value
    rows = [r_ for r_ in obo.unimod() if r_["mono"] is not None and r_["avg"] is not None]
    if not thorough:
        rows = rnd.sample(rows, 400)
    slots = ["internal", "nterm", "cterm", "unknown", "labile", "interval", "static"]
    evs = []
    for j, row in enumerate(rows):
        for slot in (slots if thorough else rnd.sample(slots, 2)):
            for mono in (True, False):
                spelling = rnd.choice(["U:" + row["name"], "UNIMOD:" + row["id"], "U:" + row["id"]])
                if "]" in spelling or "[" in spelling:
                    spelling = "UNIMOD:" + row["id"]
                evs.append(row_event(pp, f"u{j}.{slot}.{int(mono)}", row, slot, rnd.choice([1, 1, 2, 3]), mono, spelling))
    res = core.validate_traces("Trace_Mass", evs, "C02")
    rep.add_trace("unimod_sweep", evs, res, sig=sig)
    return rep.finish(rule="seeded annotations over the 22 unambiguous-mass letters + X, J with numeric / formula / "
                           "isotope-formula / named / glycan / Obs / tagged / alternative modifications in every slot "
                           "(multipliers 1..10) x charge in [-4,6] (argument or in the string) x adduct lists over 9 ions "
                           "x isotope 0..4 x loss x precision None/0..6 x mono/avg x mass/mz x string/annotation input; "
                           "Unimod entries (tabulated mass as the a-priori value) x slot x mono/avg")


def replay(path):
    ev = json.load(open(path))["event"]
    import peptacular as pp
    warnings.simplefilter("ignore")
    if ev["k"] == "mass":
        loss = float(ev["loss"][0]) + ev["loss"][1] * 1e-9
        new = [mass_event(pp, "R.0", ev["A"], ev["call"], ev["zarg"], ev["adductsArg"], ev["mono"], ev["iso"],
                          round(loss, 9), ev["prec"], ev["via"])]
    else:
        new = [ev]
    res = core.validate_traces("Trace_Mass", new, "C02")
    rep = core.Report("C02", "quick", 0)
    rep.add_trace("replay", new, res)
    return rep.finish(rule="replay of one recorded case")
