"""C19 driver: combinatorial expansions. Verdicts: spec/Trace_Annotation.tla (CombFails) with spec/Combinatoric.tla."""
from __future__ import annotations

import json
import random
import warnings

from harness import core, anngen, project
from harness.project import call

KINDS = ["permutations", "combinations", "combinations_with_replacement", "product"]



RULE_EXTRA = ('a second expansion of the same object; expand, add the last residue modification, expand again.')

def comb_event(pp, tid, A, kind, size, via):
    kw = {"repeat" if kind == "product" else "size": None if size == -1 else size}
    a = anngen.build(pp, A)
    if via == "method" and A["internal"] and len(tid) % 2:
        # the object was already expanded BEFORE it received its last residue modification (expand, edit, expand):
        # what is judged is the expansion of the object as it is now
        import copy
        from peptacular.proforma.proforma_dataclasses import Mod
        A0 = copy.deepcopy(A)
        e = A0["internal"][-1]
        last = e["mods"].pop()
        if not e["mods"]:
            A0["internal"].pop()
        a = anngen.build(pp, A0)
        call(lambda: getattr(a, kind)(**kw))
        a.add_internal_mod(e["i"], [Mod(anngen.pyval(last["v"]), last["m"])], append=True)

    elif via == "method" and len(A["internal"]) >= 2 and len(tid) % 2 == 0:
        # the residue modifications were added right to left (the object stores them in that order)
        import copy
        from peptacular.proforma.proforma_dataclasses import Mod
        A0 = copy.deepcopy(A)
        A0["internal"] = []
        a = anngen.build(pp, A0)
        for e in reversed(A["internal"]):
            a.add_internal_mod(e["i"], [Mod(anngen.pyval(m["v"]), m["m"]) for m in e["mods"]], append=True)

    def f():
        if via == "method":
            return getattr(a, kind)(**kw)
        text = anngen.render(A)
        project.maybe_poison(pp, text, tid, every=2)
        return [pp.parse(s) for s in getattr(pp, kind)(text, **kw)]
    o, res = call(f)
    ev = {"tid": tid, "k": "c19", "op": "comb", "A": A, "kind": kind, "size": size, "via": via, "out": o,
          "res": [], "again": [], "allParse": True, "siblings": [], "argAfter": A}
    if o == "ret":
        ev["res"] = [project.ann(r) for r in res]
        ok = True
        for r in res[:200]:
            o2, b = call(lambda: pp.parse(r.serialize()))
            ok = ok and o2 == "ret" and b == r
        ev["allParse"] = bool(ok)
        if res:
            # one returned annotation is then edited in place (every list it owns gets one more entry): the other
            # results, the source and a second expansion are what they were
            from peptacular.proforma.proforma_dataclasses import Mod
            first = res[0]
            def edit():
                for name in ("add_nterm_mods", "add_cterm_mods", "add_labile_mods", "add_unknown_mods", "add_isotope_mods",
                             "add_static_mods", "add_charge_adducts"):
                    getattr(first, name)([Mod("EDIT", 1)], append=True)
                first.add_internal_mod(0, [Mod("EDIT", 1)], append=True)
            call(edit)
            ev["siblings"] = ev["res"][:1] + [project.ann(r) for r in res[1:]]
        if via == "method":
            o_a, after = call(lambda: project.ann(a))
            ev["argAfter"] = after if o_a == "ret" else anngen.empty("")
    o_again, res_again = call(f)       # the same expansion again on the same object: must give the same list
    if o == "ret":
        ev["again"] = [project.ann(r) for r in res_again] if o_again == "ret" else [anngen.empty("")]
    return ev


def _job(args):
    import peptacular as pp
    warnings.simplefilter("ignore")
    return comb_event(pp, *args)


def count(kind, n, k):
    import math
    if kind == "product":
        return n ** k
    if kind == "permutations":
        return math.perm(n, k) if k <= n else 0
    if kind == "combinations":
        return math.comb(n, k)
    return math.comb(n + k - 1, k)


def run(tier, seed, rep):
    warnings.simplefilter("ignore")
    import peptacular as pp
    rnd = random.Random(seed)
    thorough = tier == "thorough"
    r = core.model_check("MC_Combinatoric", "MC_Combinatoric.cfg", workers=4)
    rep.add_mc("MC_Combinatoric (counts and order of the reference enumerations)", r)
    jobs = []
    i = 0
    for _ in range(600 if thorough else 90):
        n = rnd.choice([1, 2, 3, 3, 4, 4, 5, 6])
        A = anngen.annotation(rnd, n, n, intervals=False, density=0.4,
                              alphabet="PEK" if rnd.random() < 0.4 else anngen.RES26)
        for kind in KINDS:
            sizes = list(range(1, n + 1)) + [-1, n + 1, n + 2]
            for size in sizes:
                k = n if size == -1 else size
                if count(kind, n, k) > (3000 if thorough else 800):
                    continue
                jobs.append((f"c{i}", A, kind, size, "method" if i % 3 else "module"))
                i += 1
    evs = core.pmap(_job, jobs)
    res = core.validate_traces("Trace_Annotation", evs, "C19", per_shard_max=400, min_per_shard=30)
    rep.add_trace("expansions", evs, res,
                  sig=lambda e: (e["kind"], len(e["A"]["seq"]), e["size"], e["via"],
                                 tuple(sorted(k for k in ("labile", "static", "isotope", "unknown", "nterm", "cterm",
                                                          "internal", "adducts") if e["A"][k])), e["A"]["charge"] != 0))
    return rep.finish(rule="seeded annotations of length 1..6 (all modification kinds except intervals) x the four "
                           "expansions x size/repeat 1..n, None, n+1, n+2 (result lists capped at 800/3000 items), "
                           "through the annotation method and the module-level string function. distinct = (kind, n, "
                           "size, route, feature set)")


def replay(path):
    ev = json.load(open(path))["event"]
    import peptacular as pp
    warnings.simplefilter("ignore")
    new = [comb_event(pp, "R.0", ev["A"], ev["kind"], ev["size"], ev["via"])]
    res = core.validate_traces("Trace_Annotation", new, "C19")
    rep = core.Report("C19", "quick", 0)
    rep.add_trace("replay", new, res)
    return rep.finish(rule="replay of one recorded case")
