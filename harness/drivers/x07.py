"""X07 (not one of the listed properties; part of the growing specification, see DESIGN.md §12.8e): the input normalisers of
proforma/input_convert.py called directly, against spec/Inputs.tla.
Stage A: MC_Inputs (idempotent on its own results; a value, [value] and [[value]] normalise alike; results come from leaves).
Stage C: convert_to_mod / fix_list_of_mods / fix_list_of_list_of_mods on every input tree of depth <= 2 with <= 3 items per
list over 7 leaves (sampled beyond 2 items), fix_interval_input on tuples, remove_empty_list_of_list_of_mods; after each call
every Mod of the result is edited in place and the input projected again.  Verdicts: spec/Trace_Inputs.tla."""
from __future__ import annotations

import itertools
import random
import warnings

from harness import core, project
from harness.anngen import pyval
from harness.project import call

RULE_EXTRA = ""
LEAVES = [("v", "s:Phospho", 1), ("v", "i:3", 1), ("v", "f:2.5", 1), ("v", "i:0", 1), ("m", "s:Acetyl", 2), ("m", "f:-1.25", 1), ("x", "", 1)]


def leaf(t, v, m):
    return {"t": t, "v": v, "m": m, "items": []}


def lst(items):
    return {"t": "l", "v": "", "m": 1, "items": list(items)}


def real(pp, x):
    """Input tree -> the Python value it stands for (fresh objects every time)."""
    if x["t"] == "v":
        return pyval(x["v"])
    if x["t"] == "m":
        return pp.Mod(pyval(x["v"]), x["m"])
    if x["t"] == "l":
        return [real(pp, y) for y in x["items"]]
    return None


def proj_in(o):
    """The Python input as it is now -> tree."""
    if o is None:
        return leaf("x", "", 1)
    if isinstance(o, list):
        return lst(proj_in(y) for y in o)
    if hasattr(o, "val"):
        return leaf("m", project.val(o.val), o.mult)
    return leaf("v", project.val(o), 1)


def touch(r):
    from harness.drivers.c20 import touch_mods
    touch_mods(r)


def cls(o):
    return o[4:] if o.startswith("exc:") else o


def run(tier, seed, rep):
    warnings.simplefilter("ignore")
    import peptacular as pp
    from peptacular.proforma import input_convert as ic
    rnd = random.Random(seed)
    thorough = tier == "thorough"
    r = core.model_check("MC_Inputs", "MC_Inputs.cfg", workers=4)
    rep.add_mc("MC_Inputs (idempotence, embedding of a value into lists, results come from leaves)", r)
    leaves = [leaf(*x) for x in LEAVES]
    lists1 = [lst(c) for n in range(0, 4) for c in itertools.product(leaves, repeat=n) if n < 3 or rnd.random() < 0.15]
    pool = leaves + lists1
    lists2 = [lst(c) for n in range(1, 4) for c in itertools.product(rnd.sample(pool, 40 if thorough else 18), repeat=n)
              if n < 3 or rnd.random() < (0.3 if thorough else 0.05)]
    trees = leaves + lists1 + lists2
    evs = []
    i = 0
    for x in trees:
        for k, fn in (("mod", ic.convert_to_mod), ("list", ic.fix_list_of_mods), ("listlist", ic.fix_list_of_list_of_mods)):
            if k == "mod" and x["t"] == "l" and len(x["items"]) > 1:
                continue
            arg = real(pp, x)
            kept = proj_in(arg)
            o, v = call(fn, arg)
            ev = {"tid": f"{k[0]}{i}", "k": k, "x": x, "out": cls(o), "res": [], "kept": kept, "touched": kept}
            if o == "ret":
                ev["res"] = project.mod(v) if k == "mod" else project.mods(v) if k == "list" else [project.mods(g) for g in v]
                touch(v)
                ev["touched"] = proj_in(arg)
            evs.append(ev)
            i += 1
    for x in leaves + lists1:
        s, e, amb = rnd.randint(0, 3), rnd.randint(4, 8), rnd.random() < 0.5
        arg = real(pp, x)
        kept = proj_in(arg)
        o, v = call(ic.fix_interval_input, (s, e, amb, arg))
        ev = {"tid": f"v{i}", "k": "interval", "s": s, "e": e, "amb": amb, "x": x, "out": cls(o), "res": [], "kept": kept, "touched": kept}
        if o == "ret":
            ev["res"] = {"s": v.start, "e": v.end, "amb": bool(v.ambiguous), "mods": project.mods(v.mods)}
            touch(v)
            ev["touched"] = proj_in(arg)
        evs.append(ev)
        i += 1
    for _ in range(300 if thorough else 100):
        groups = [[pp.Mod(rnd.choice(["a", "b", 2.5]), rnd.choice([1, 2])) for _ in range(rnd.choice([0, 0, 1, 2]))] for _ in range(rnd.randint(0, 4))]
        want = [project.mods(g) for g in groups]
        o, v = call(ic.remove_empty_list_of_list_of_mods, groups)
        evs.append({"tid": f"d{i}", "k": "drop", "groups": want, "out": cls(o), "res": [project.mods(g) for g in v] if o == "ret" and v else []})
        i += 1
    res = core.validate_traces("Trace_Inputs", evs, "X07", min_per_shard=300)
    rep.add_trace("normalisers", evs, res, sig=lambda e: (e["k"], e["out"], e.get("x", {}).get("t", ""), len(e.get("x", {}).get("items", []))))
    return rep.finish(rule="convert_to_mod / fix_list_of_mods / fix_list_of_list_of_mods on input trees of depth <= 2 with <= 3 items per "
                           f"list over 7 leaves (bare text, whole number, float, zero, two Mods, None): {len(trees)} trees; "
                           "fix_interval_input on tuples with each flat input as fourth item; remove_empty_list_of_list_of_mods on "
                           "seeded group lists; inputs projected again after every Mod of the result was edited in place")


def replay(path):
    raise SystemExit("X07 has no replay")
