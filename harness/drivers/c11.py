"""C11 driver: reordering and cutting a peptide moves modifications with their residues.
Verdicts: spec/Trace_Annotation.tla (reference operators in spec/Annotation.tla)."""
from __future__ import annotations

import json
import random
import warnings

from harness import core, anngen, project
from harness.project import call, fix



RULE_EXTRA = ('a slice of the reversed peptide (interval list in descending order).')

def _mass(pp, a):
    o, m = call(pp.mass, a)
    # no mass: the call raised, or a name like 'inf' / 'nan' was weighed as a float under a label (not a number to compare)
    return fix(m) if o == "ret" and m == m and abs(m) != float("inf") else []


def _three(pp, A, meth, kwargs, strfn=None, strargs=()):
    """copy form, inplace form, module-level string form of one operation -> (out, results, massIn, massOut)."""
    a = anngen.build(pp, A)
    min_ = _mass(pp, a.copy())
    o, r = call(lambda: getattr(a, meth)(**kwargs))
    if o != "ret":
        return o, [], min_, []
    results = [{"via": "copy", "ann": project.ann(r)}]
    mout = _mass(pp, r.copy())
    b = anngen.build(pp, A)
    o2, _ = call(lambda: getattr(b, meth)(inplace=True, **kwargs))
    if o2 != "ret":
        return o2, [], min_, []
    results.append({"via": "inplace", "ann": project.ann(b)})
    if strfn is not None:
        text = anngen.render(A)
        o3, s = call(lambda: strfn(text, *strargs))
        if o3 != "ret":
            return o3, [], min_, []
        o4, c = call(pp.parse, s)
        if o4 != "ret":
            # the string-level function returned text the parser rejects: recorded, judged by the spec
            results.append({"via": "str_unparsable", "ann": anngen.empty("")})
        else:
            results.append({"via": "str", "ann": project.ann(c)})
        # the same string-level function writing explicit plus signs, and fed an annotation OBJECT (which it must leave alone)
        o5, s5 = call(lambda: strfn(text, *strargs, include_plus=True))
        o6, c5 = call(pp.parse, s5) if o5 == "ret" else (o5, None)
        results.append({"via": "strplus", "ann": project.ann(c5)} if o6 == "ret" else {"via": "str_unparsable", "ann": anngen.empty("")})
        obj = anngen.build(pp, A)
        o7, s7 = call(lambda: strfn(obj, *strargs))
        o8, c7 = call(pp.parse, s7) if o7 == "ret" else (o7, None)
        results.append({"via": "fnobj", "ann": project.ann(c7)} if o8 == "ret" else {"via": "str_unparsable", "ann": anngen.empty("")})
        results.append({"via": "ARG", "ann": project.ann(obj)})
    return "ret", results, min_, mout


def ends_ok(A, i, j):
    for iv in A["intervals"]:
        for x in (i, j):
            if iv["s"] < x < iv["e"]:
                return False
    return True


def events_for(pp, rnd, A, tag):
    evs = []
    n = len(A["seq"])
    base = {"A": A, "massIn": [], "massOut": []}

    def add(op, **kw):
        e = dict(base)
        e.update(kw)
        e["op"] = op
        e["tid"] = f"{tag}.{op}.{len(evs)}"
        e["k"] = "c11"
        evs.append(e)

    swap = rnd.random() < 0.5
    o, res, mi, mo = _three(pp, A, "reverse", {"swap_terms": swap}, pp.reverse, (swap,))
    add("reverse", swap=swap, out=o, results=res, massIn=mi, massOut=mo)
    for k in {rnd.randint(-2 * n, 2 * n), rnd.randint(-2 * n, 2 * n), 0, n, -1}:
        o, res, mi, mo = _three(pp, A, "shift", {"n": k}, pp.shift, (k,))
        add("shift", n=k, out=o, results=res, massIn=mi, massOut=mo)
    seed = rnd.randint(0, 10 ** 6)
    o, res, mi, mo = _three(pp, A, "shuffle", {"seed": seed}, pp.shuffle, (seed,))
    add("shuffle", seed=seed, out=o, results=res, massIn=mi, massOut=mo)
    o, res, mi, mo = _three(pp, A, "sort_residues", {}, pp.sort, ())
    add("sort", out=o, results=res, massIn=mi, massOut=mo)
    # identities
    a = anngen.build(pp, A)
    o, r = call(lambda: a.reverse().reverse())
    add("reverse2", out=o, res=project.ann(r) if o == "ret" else anngen.empty(""))
    k = rnd.randint(-2 * n, 2 * n)
    o, r = call(lambda: anngen.build(pp, A).shift(k).shift(-k))
    add("shift_back", n=k, out=o, res=project.ann(r) if o == "ret" else anngen.empty(""))
    o, r = call(lambda: anngen.build(pp, A).shift(n))
    add("shift_len", n=n, out=o, res=project.ann(r) if o == "ret" else anngen.empty(""))
    # slices
    pairs = [(i, j) for i in range(n + 1) for j in range(i, n + 1) if ends_ok(A, i, j)]
    for (i, j) in rnd.sample(pairs, min(len(pairs), 6)):
        o, res, _, _ = _three(pp, A, "slice", {"start": i, "stop": j}, pp.span_to_sequence, ((i, j, 0),))
        rep_eq = True
        if o == "ret" and i < j:
            sl = anngen.build(pp, A).slice(i, j)
            o5, back = call(lambda: pp.parse(sl.serialize()))
            rep_eq = bool(o5 == "ret" and back == sl and sl == back)
        add("slice", i=i, j=j, out=o, results=res, reparseEq=rep_eq)
        if j - i >= 1:
            aa = rnd.randint(0, j - i)
            bb = rnd.randint(aa, j - i)
            if ends_ok(A, i + aa, i + bb):
                o, r = call(lambda: anngen.build(pp, A).slice(i, j).slice(aa, bb))
                o2, r2 = call(lambda: anngen.build(pp, A).slice(i + aa, i + bb))
                ok = o == "ret" and o2 == "ret"
                add("slice2", i=i, j=j, a=aa, b=bb, out=o if o != "ret" else o2,
                    res=project.ann(r) if ok else anngen.empty(""), res2=project.ann(r2) if ok else anngen.empty(""))
    # a slice of the REVERSED peptide (its interval list is in descending order): mirror image of a slice of A
    for (i, j) in rnd.sample(pairs, min(len(pairs), 3)):
        o, r = call(lambda: anngen.build(pp, A).reverse().slice(n - j, n - i))
        add("revslice", i=n - j, j=n - i, out=o, res=project.ann(r) if o == "ret" else anngen.empty(""))
    o, ps = call(lambda: list(anngen.build(pp, A).split()))
    add("split", out=o, pieces=[project.ann(p) for p in ps] if o == "ret" else [])
    return evs


def _job(args):
    import peptacular as pp
    warnings.simplefilter("ignore")
    return events_for(pp, random.Random(args[0]), args[1], args[2])


def sig(e):
    A = e["A"]
    return (e["op"], len(A["seq"]) > 3, tuple(sorted(k for k in ("labile", "static", "isotope", "unknown", "nterm",
            "cterm", "internal", "intervals", "adducts") if A[k])), A["charge"] != 0, e.get("swap"),
            (e.get("n", 0) or 0) % max(1, len(A["seq"])), e.get("i") == 0, e.get("j") == len(A["seq"]))


def run(tier, seed, rep):
    warnings.simplefilter("ignore")
    import peptacular as pp
    rnd = random.Random(seed)
    thorough = tier == "thorough"
    r = core.model_check("MC_ProForma", "MC_ProForma.cfg", env={"OUT_FILE": str(core.workdir() / "unused.ndjson")},
                         workers=8, xmx="6g")
    rep.add_mc("MC_ProForma (laws of reverse/shift/slice/split on the bounded space)", r)
    jobs = []
    for i in range(5000 if thorough else 500):
        kinds = "massy" if i % 2 == 0 else "all"
        A = anngen.annotation(rnd, 1, 25 if i % 3 else 6, kinds=kinds,
                              p={"interval": 0.5, "charge": 0.2})
        if kinds == "massy":
            A["static"] = [m for m in A["static"] if "^" not in m["v"]]
        jobs.append((rnd.randrange(10 ** 9), A, f"a{i}"))
    evs = [e for lst in core.pmap(_job, jobs) for e in lst]
    res = core.validate_traces("Trace_Annotation", evs, "C11")
    rep.add_trace("operations", evs, res, sig=sig)
    return rep.finish(rule="seeded abstract annotations (length 1..25, all modification kinds, intervals at start / "
                           "middle / end and adjacent) x reverse(swap) / shift(k in [-2n,2n]) / shuffle(seed) / sort / "
                           "slice(i,j) / slice of slice / split / identities, each through the copy form, the inplace "
                           "form and the string-level function. distinct = (operation, feature set, argument class)")


def replay(path):
    ev = json.load(open(path))["event"]
    res = core.validate_traces("Trace_Annotation", [ev], "C11")
    rep = core.Report("C11", "quick", 0)
    rep.add_trace("replay (recorded event re-validated)", [ev], res)
    return rep.finish(rule="replay of one recorded event")
