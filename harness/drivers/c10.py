"""C10 driver: a modification means the same thing however it is spelled. Verdicts: spec/Trace_Resolver.tla."""
from __future__ import annotations

import json
import random
import re
import warnings

from harness import core, anngen, obo
from harness.project import call, fix, comp8

PREFIX = {"unimod": ["U:", "UNIMOD:", "unimod:", "Unimod:", "u:"], "psimod": ["M:", "MOD:", "mod:", "m:", "PSI-MOD:", "psi-mod:"],
          "xlmod": ["X:", "XLMOD:", "xlmod:", "x:"]}



RULE_EXTRA = ('repeated monosaccharide names and explicit zero counts; formulas with an element repeated across bracket groups; rows with an empty tabulated composition always included; the reported composition weighs the tabulated mass.')

def res(o, v, proj):
    return {"out": o, "v": proj(v) if o == "ret" else []}


def spell_event(pp, tid, row, rnd, full):
    from peptacular.proforma.proforma_dataclasses import Mod
    db = row["db"]
    sp = [p + row["name"] for p in PREFIX[db]] + [p + row["id"] for p in PREFIX[db]]
    if db != "xlmod":
        sp.append(row["name"])
    if not full:
        keep = rnd.sample(sp, 5)
        if db != "xlmod" and row["name"] not in keep:
            keep.append(row["name"])
        sp = keep
    ev = {"tid": tid, "k": "spell",
          "row": {"db": db, "id": row["id"], "name": row["name"], "hasMono": row["mono"] is not None,
                  "mono": fix(row["mono"]) if row["mono"] is not None else [0, 0],
                  "hasComp": bool(row.get("comp")), "comp": row.get("comp") or [],
                  # the table gives a composition for the entry (possibly the empty one: plain residues, D-amino acids)
                  "tabCompKnown": row.get("comp") is not None},
          "spellings": sp, "mono": [], "avg": [], "comp": [], "pep": []}
    o0, c0 = call(pp.mod_comp, sp[-1] if db == "xlmod" else ("UNIMOD:" if db == "unimod" else "MOD:") + row["id"])
    ev["compFirstOk"] = o0 == "ret"
    ev["compFirst"] = comp8(c0) if o0 == "ret" else []
    for s in sp:
        ev["mono"].append(res(*call(pp.mod_mass, s, True), fix))
        ev["avg"].append(res(*call(pp.mod_mass, s, False), fix))
        ev["comp"].append(res(*call(pp.mod_comp, s), lambda c: json.dumps(comp8(c), sort_keys=True)))
        ev["pep"].append(res(*call(lambda: pp.mass(pp.ProFormaAnnotation(_sequence="K", _internal_mods={0: [Mod(s, 1)]}))), fix))
    return ev


def rand_formula(rnd):
    els = rnd.sample(["C", "H", "N", "O", "S", "P", "Na", "Cl", "Se", "Fe", "K", "F", "I", "Br", "Mg"], rnd.randint(1, 5))
    if rnd.random() < 0.3:
        els = els + [rnd.choice(els)] + ([rnd.choice(els)] if rnd.random() < 0.3 else [])   # an element may come again
    parts = []
    for e in els:
        c = rnd.choice([1, 2, 3, 12, -1, -2, 20, "1.5", "0.25", "-2.0001"])
        if rnd.random() < 0.25 and e in ("C", "N", "O", "H", "S"):
            iso = {"C": "13C", "N": "15N", "O": "18O", "H": "2H", "S": "34S"}[e]
            parts.append(f"[{iso}{c}]")
        else:
            parts.append(f"{e}{'' if c == 1 and rnd.random() < 0.5 else c}")
    return "Formula:" + "".join(parts)


def rand_glycan(rnd):
    names = rnd.sample(["Hex", "HexNAc", "dHex", "Fuc", "NeuAc", "NeuGc", "Pent", "HexA", "HexN"], rnd.randint(1, 4))
    if rnd.random() < 0.25:
        names.append(rnd.choice(names))     # a name may be written twice: the counts add up
    return "Glycan:" + "".join(f"{n}{rnd.choice([1, 2, 3, 5, 11, 0])}" for n in names)


def generic_event(pp, tid, rnd):
    from peptacular.proforma.proforma_dataclasses import Mod
    r = rnd.random()
    if r < 0.3:
        v = rand_formula(rnd)
    elif r < 0.5:
        v = rand_glycan(rnd)
    elif r < 0.65:
        v = rnd.choice(["U:", "M:", "X:", "UNIMOD:", "MOD:", "XLMOD:", "Obs:", "obs:", "PSI-MOD:", "psi-mod:", "Unimod:", "R:",
                        "RESID:", "G:", "GNO:", "xlmod:", "m:"]) + rnd.choice(["+", "-"]) + \
            rnd.choice(["15.995", "1", "0.984016", "100.25", "79.966331"])
    else:
        v = rnd.choice(anngen.MASSY)
    d = rnd.random()
    if d < 0.2 and "#" not in v and "|" not in v:
        v += rnd.choice(["#g1", "#XL2", "#s1(0.75)"])
    elif d < 0.4 and "|" not in v:
        v = rnd.choice([v + "|INFO:note", "INFO:first|" + v, v + "|Obs:+1.0"])
    mult = rnd.choice([1, 1, 2, 3, 7])
    mono = rnd.random() < 0.6
    if rnd.random() < 0.3:
        # other values were resolved (or refused) earlier in the process: glycan texts that need backtracking, that are
        # unreadable from some point on, formulas with unknown symbols. What THIS value resolves to is its own business.
        for _ in range(rnd.randint(1, 3)):
            junk = rnd.choice(["Glycan:Neu5Acetyl2", "Glycan:HexNAc2Foo", "Glycan:Hex2F", "Glycan:HexNAc2Hex3Fu", "Glycan:NeuAcx",
                               "Glycan:HexHexNA", "Glycan:dHex2Pentose1", "Glycan:Hex" + "x" * rnd.randint(1, 9),
                               "Glycan:HexNAc" + str(rnd.randint(1, 12)) + "Q" * rnd.randint(1, 9),
                               "Formula:C2Xx3", "Formula:C2H", "U:NoSuchName", "Glycan:"])
            call(lambda: pp.mod_mass(junk, rnd.random() < 0.5))
            call(lambda: pp.mod_comp(junk))
    o, m = call(lambda: pp.mod_mass(Mod(v, mult), mono))
    ev = {"tid": tid, "k": "generic", "v": "s:" + v, "mult": mult, "mono": mono, "out": o, "res": fix(m) if o == "ret" else [0, 0],
          "routeOut": "skipped", "route": [0, 0]}
    if o == "ret" and mono and rnd.random() < 0.5:
        # the same value on a peptide with a global label: mass() then goes through the composition calculator
        def route():
            a = pp.ProFormaAnnotation(_sequence="G", _isotope_mods=[Mod("15N", 1)], _internal_mods={0: [Mod(v, mult)]})
            return pp.mass(a, charge=0) - pp.mass("<15N>G", charge=0)
        o2, d = call(route)
        ev["routeOut"], ev["route"] = o2, fix(d) if o2 == "ret" else [0, 0]
    return ev


def run(tier, seed, rep):
    warnings.simplefilter("ignore")
    import peptacular as pp
    rnd = random.Random(seed)
    thorough = tier == "thorough"
    r = core.model_check("MC_Mods", "MC_Mods.cfg", workers=4)
    rep.add_mc("MC_Mods (laws of the modification semantics: tags, alternatives, multipliers, prefixes)", r)
    evs = []
    tables = {"unimod": obo.unimod(), "psimod": obo.psimod(), "xlmod": [x for x in obo.xlmod()]}
    for db, rows in tables.items():
        colon = [x for x in rows if ":" in x["name"] or "[" in x["name"]]
        # rows whose tabulated composition uses group tokens (Ac, Me, Hex, ...) are always included: few and fragile
        special = [x for x in rows if x.get("comp") and any(len(t[0]) > 1 and t[0] in ("Ac", "Me", "Hex", "HexNAc", "dHex",
                   "NeuAc", "NeuGc", "Pent", "HexA", "Kdn", "Sulf", "Phos", "HexN", "Hep") for t in x["comp"])]
        # ... and the rows whose tabulated composition is empty (plain residues, D-amino acids): mass 0, composition {}
        zero = [x for x in rows if x.get("comp") is not None and all(t[1] == 0 for t in x["comp"])]
        pick = rows if thorough else (rnd.sample(rows, 300) + colon[:150] + special[:120] + zero[:40])
        for j, row in enumerate(pick):
            evs.append(spell_event(pp, f"{db}.{row['id']}.{j}", row, rnd, thorough))
    for j, t in enumerate(obo.monosaccharides()):
        raw = t["raw"]
        pv = " ".join(raw.get("property_value", []))
        f = re.search(r'has_chemical_formula "([^"]+)"', pv)
        m = re.search(r'has_monoisotopic_mass "([^"]+)"', pv)
        if not f or not m:
            continue
        o, v = call(lambda: pp.mod_mass("Glycan:" + t["name"], True))
        evs.append({"tid": f"sugar{j}", "k": "sugar", "name": t["name"], "formula": f.group(1), "tabMono": fix(float(m.group(1))),
                    "out": o, "res": fix(v) if o == "ret" else [0, 0]})
    for j in range(20000 if thorough else 3000):
        evs.append(generic_event(pp, f"g{j}", rnd))
    res_ = core.validate_traces("Trace_Resolver", evs, "C10", min_per_shard=100)
    rep.add_trace("vocabularies_and_generic_forms", evs, res_,
                  sig=lambda e: (e["k"], e.get("row", {}).get("db"), e.get("row", {}).get("id"),
                                 (e.get("v") or "")[:12], e.get("mult"), e.get("mono") if e["k"] == "generic" else None))
    return rep.finish(rule="Unimod / PSI-MOD / XLMOD rows (thorough: every row and every spelling; quick: 300 rows per "
                           "vocabulary + the names containing ':' or '[', 5-6 spellings each) x {mod_mass mono, mod_mass "
                           "average, mod_comp, mass of K carrying it}; the 27 monosaccharide rows; seeded generic forms "
                           "(formulas with isotopes / negative / fractional counts, glycans, prefixed signed numbers, Obs, "
                           "tags, alternatives, multipliers)")


def replay(path):
    ev = json.load(open(path))["event"]
    res_ = core.validate_traces("Trace_Resolver", [ev], "C10")
    rep = core.Report("C10", "quick", 0)
    rep.add_trace("replay (recorded event re-validated)", [ev], res_)
    return rep.finish(rule="replay of one recorded event")
