"""C16 driver: subsequence search and coverage. Verdicts: spec/Trace_Search.tla (reference spec/Search.tla)."""
from __future__ import annotations

import copy
import itertools
import json
import random
import warnings

from harness import core, anngen, project
from harness.project import call, fix



RULE_EXTRA = ('the same two objects serve the search that ignores modifications and then the one that does not; another spelling of the same modified residues (order, 1 vs 1.0) and peptide-level decorations (labels, labile) on string inputs for the order-insensitive test (known finding C16_UnorderedComparesText); a modification written twice.')

def slice_abs(A, s, e):
    """Abstract slice used only to *generate* queries (the spec recomputes everything it needs)."""
    n = len(A["seq"])
    B = copy.deepcopy(A)
    B["seq"] = A["seq"][s:e]
    B["internal"] = [{"i": x["i"] - s, "mods": x["mods"]} for x in A["internal"] if s <= x["i"] < e]
    B["intervals"] = [{**iv, "s": iv["s"] - s, "e": iv["e"] - s} for iv in A["intervals"] if iv["s"] >= s and iv["e"] <= e]
    if s > 0:
        B["nterm"] = []
    if e < n:
        B["cterm"] = []
    return B


def ev_find(pp, tid, T, Q, ignore, via, objs=None):
    t, q = objs if objs is not None else (anngen.build(pp, T), anngen.build(pp, Q))
    if via == "str":
        project.maybe_poison(pp, anngen.render(T), tid)
        f = lambda: pp.find_subsequence_indices(anngen.render(T), anngen.render(Q), ignore_mods=ignore)
    else:
        f = lambda: pp.find_subsequence_indices(t, q, ignore_mods=ignore)
    o, r = call(f)
    return {"tid": tid, "k": "c16", "op": "find", "T": T, "Q": Q, "ignore": ignore, "via": via, "out": o,
            "res": list(r) if o == "ret" else []}


def run(tier, seed, rep):
    warnings.simplefilter("ignore")
    import peptacular as pp
    rnd = random.Random(seed)
    thorough = tier == "thorough"
    r = core.model_check("MC_Search", "MC_Search.cfg", workers=4)
    rep.add_mc("MC_Search (overlapped scan machine refines Occurrences)", r)
    # exhaustive: all targets 0..9 over {A,K} x all queries 1..4
    evs = []
    i = 0
    tmax = 9
    for n in range(0, tmax + 1):
        for t in itertools.product("AK", repeat=n):
            T = anngen.empty(t)
            for m in range(1, 5):
                for q in itertools.product("AK", repeat=m):
                    if not thorough and n >= 8 and rnd.random() < 0.5:
                        continue
                    evs.append(ev_find(pp, f"x{i}", T, anngen.empty(q), bool(i % 2), "str" if i % 5 == 0 else "ann"))
                    i += 1
    res = core.validate_traces("Trace_Search", evs, "C16")
    rep.add_trace("exhaustive_two_letter", evs, res, sig=lambda e: ("find", "".join(e["T"]["seq"]), "".join(e["Q"]["seq"])))
    # modified targets, queries cut from them or perturbed
    evs = []
    for j in range(3000 if thorough else 400):
        alpha = rnd.choice(["AK", "PEK", anngen.RES22])
        # a third of the targets carry ambiguity intervals (queries and occurrences never cut through one, see below)
        T = anngen.annotation(rnd, 1, 40, alphabet=alpha, density=rnd.choice([0.1, 0.3, 0.6]),
                              p={"interval": 0.5 if j % 3 == 0 else 0, "charge": 0.1, "unknown": 0.1, "labile": 0.1})
        if j % 6 == 1:
            # a charge state (sometimes with adducts) and sparse residue modifications, nothing else: many stretches of such a
            # target carry nothing but the charge
            T = anngen.annotation(rnd, 2, 14, alphabet=alpha, density=rnd.choice([0.0, 0.1, 0.3]),
                                  p={k: 0 for k in ("labile", "static", "isotope", "unknown", "nterm", "cterm", "interval")}
                                  | {"charge": 1.0, "adducts": 0.25})
        # make repeats likely: duplicate a modified stretch
        if len(T["seq"]) >= 6 and rnd.random() < 0.6 and not T["intervals"]:
            k = rnd.randint(1, 3)
            for off in range(k):
                T["seq"][k + off] = T["seq"][off]
            T["internal"] = [e for e in T["internal"] if not (k <= e["i"] < 2 * k)]
            T["internal"] += [{"i": e["i"] + k, "mods": copy.deepcopy(e["mods"])} for e in T["internal"] if e["i"] < k]
            T["internal"].sort(key=lambda e: e["i"])
            T["intervals"] = []
        n = len(T["seq"])
        subs = []
        for _ in range(4):
            s = rnd.randint(0, n - 1)
            e = rnd.randint(s + 1, min(n, s + 6))
            if any(iv["s"] < x < iv["e"] for iv in T["intervals"] for x in (s, e)):
                continue
            Q = copy.deepcopy(slice_abs(T, s, e))
            r_ = rnd.random()
            if r_ < 0.12 and Q["internal"]:
                em = rnd.choice(Q["internal"])                                  # perturbed: write one mod twice
                em["mods"] = em["mods"] + [copy.deepcopy(rnd.choice(em["mods"]))]
            elif r_ < 0.25 and Q["internal"]:
                Q["internal"].pop(rnd.randrange(len(Q["internal"])))          # perturbed: drop a residue mod
            elif r_ < 0.4:
                p_ = rnd.randrange(len(Q["seq"]))
                if not any(x["i"] == p_ for x in Q["internal"]):
                    Q["internal"].append({"i": p_, "mods": [{"v": "i:77", "m": 1}]})
                    Q["internal"].sort(key=lambda x: x["i"])
            elif r_ < 0.5:
                Q["seq"][rnd.randrange(len(Q["seq"]))] = rnd.choice("AKP")
            if T["intervals"]:
                # what a stretch that cuts through an interval carries is not defined: no occurrence of the residues may do so
                qs, ts = "".join(Q["seq"]), "".join(T["seq"])
                offs = [o_ for o_ in range(n - len(qs) + 1) if ts[o_:o_ + len(qs)] == qs]
                if any(iv["s"] < x < iv["e"] for iv in T["intervals"] for o_ in offs for x in (o_, o_ + len(qs))):
                    continue
            subs.append(Q)
            # the same two annotation objects serve the search that ignores modifications and then the one that does not
            objs = (anngen.build(pp, T), anngen.build(pp, Q))
            for ignore in (True, False):
                evs.append(ev_find(pp, f"m{j}.{len(evs)}", T, Q, ignore, "ann" if rnd.random() < 0.7 else "str", objs))
            o, r2 = call(lambda: pp.is_subsequence(anngen.build(pp, Q), anngen.build(pp, T), order=True))
            evs.append({"tid": f"m{j}.{len(evs)}", "k": "c16", "op": "ordered", "T": T, "Q": Q, "out": o,
                        "res": bool(r2) if o == "ret" else False})
        if subs:
            for acc in (False, True):
                for ignore in (False, True):
                    # target and listed subsequences as objects or as the texts that denote them
                    as_text = rnd.random() < 0.5
                    o, r2 = call(lambda: pp.coverage(anngen.render(T) if as_text and rnd.random() < 0.5 else anngen.build(pp, T),
                                                     [anngen.render(q) if as_text else anngen.build(pp, q) for q in subs],
                                                     accumulate=acc, ignore_mods=ignore))
                    evs.append({"tid": f"m{j}.{len(evs)}", "k": "c16", "op": "coverage", "T": T, "subs": subs,
                                "accumulate": acc, "ignore": ignore, "out": o, "res": list(r2) if o == "ret" else []})
            for ignore in (False, True):
                as_text = rnd.random() < 0.5
                o, r2 = call(lambda: pp.percent_coverage(anngen.build(pp, T), [anngen.render(q) if as_text else anngen.build(pp, q)
                                                                               for q in subs], ignore_mods=ignore))
                evs.append({"tid": f"m{j}.{len(evs)}", "k": "c16", "op": "percent", "T": T, "subs": subs,
                            "ignore": ignore, "out": o, "res": fix(r2) if o == "ret" else [0, 0]})
        # modifications that differ only in a number (-1 / -2 / -1.0 / -2.0: distinct modifications whose values collide in
        # many hash functions): the query is a stretch of the target with one number exchanged for its neighbour
        T4 = anngen.annotation(rnd, 3, 12, alphabet="AS", density=0.6,
                               p={k: 0 for k in ("labile", "static", "isotope", "unknown", "nterm", "cterm", "interval", "charge")})
        near = ["i:-1", "i:-2", "f:-1.0", "f:-2.0", "i:1", "i:2"]
        for e_ in T4["internal"]:
            e_["mods"] = [{"v": rnd.choice(near), "m": 1}]
        n4 = len(T4["seq"])
        s4 = rnd.randint(0, n4 - 1)
        Q4 = copy.deepcopy(slice_abs(T4, s4, rnd.randint(s4 + 1, min(n4, s4 + 3))))
        if Q4["internal"] and rnd.random() < 0.7:
            m_ = rnd.choice(Q4["internal"])["mods"][0]
            m_["v"] = {"i:-1": "i:-2", "i:-2": "i:-1", "f:-1.0": "f:-2.0", "f:-2.0": "f:-1.0", "i:1": "i:2", "i:2": "i:1"}[m_["v"]]
        evs.append(ev_find(pp, f"m{j}.{len(evs)}", T4, Q4, False, "ann" if rnd.random() < 0.7 else "str"))
        o, r2 = call(lambda: pp.is_subsequence(anngen.build(pp, Q4), anngen.build(pp, T4), order=True))
        evs.append({"tid": f"m{j}.{len(evs)}", "k": "c16", "op": "ordered", "T": T4, "Q": Q4, "out": o,
                    "res": bool(r2) if o == "ret" else False})
        # one target object over its life: searched (modifications ignored), edited in place or cut, searched again. The
        # target of the later events is what the object itself reports after the edit.
        if subs:
            tobj = anngen.build(pp, T)
            qobj = anngen.build(pp, subs[0])
            call(lambda: pp.find_subsequence_indices(tobj, qobj, ignore_mods=True))
            call(lambda: pp.coverage(tobj, [qobj], ignore_mods=True))
            kind = rnd.choice(["reverse", "slice_inplace", "slice_copy", "shift", "none"])
            s5 = rnd.randint(0, n - 1)
            e5 = rnd.randint(s5 + 1, n)
            cut = tobj
            if kind == "reverse":
                o5, _ = call(lambda: tobj.reverse(inplace=True))
            elif kind == "slice_inplace":
                o5, _ = call(lambda: tobj.slice(s5, e5, inplace=True))
            elif kind == "slice_copy":
                o5, cut = call(lambda: tobj.slice(s5, e5))
            elif kind == "shift":
                o5, _ = call(lambda: tobj.shift(rnd.randint(1, 3), inplace=True))
            else:
                o5 = "ret"
            if o5 == "ret" and cut is not None:
                o6, T5 = call(lambda: project.ann(cut))
                if o6 == "ret" and not T5["intervals"]:
                    for ignore in (True, False):
                        o, r_ = call(lambda: pp.find_subsequence_indices(cut, qobj, ignore_mods=ignore))
                        evs.append({"tid": f"m{j}.{len(evs)}", "k": "c16", "op": "find", "T": T5, "Q": subs[0], "ignore": ignore,
                                    "via": "ann", "out": o, "res": list(r_) if o == "ret" else []})
                    o, r2 = call(lambda: pp.coverage(cut, [qobj], accumulate=False, ignore_mods=True))
                    evs.append({"tid": f"m{j}.{len(evs)}", "k": "c16", "op": "coverage", "T": T5, "subs": [subs[0]],
                                "accumulate": False, "ignore": True, "out": o, "res": list(r2) if o == "ret" else []})
        # order-insensitive containment: residue-mod-only annotations
        T2 = anngen.annotation(rnd, 1, 12, alphabet="PEK", density=0.4,
                               p={k: 0 for k in ("labile", "static", "isotope", "unknown", "nterm", "cterm", "interval", "charge")})
        n2 = len(T2["seq"])
        idx = rnd.sample(range(n2), rnd.randint(1, n2))
        Q2 = anngen.empty([T2["seq"][p_] for p_ in idx])
        imap = {e["i"]: e["mods"] for e in T2["internal"]}
        Q2["internal"] = [{"i": qi, "mods": copy.deepcopy(imap[p_])} for qi, p_ in enumerate(idx) if p_ in imap]
        r_ = rnd.random()
        if r_ < 0.3:
            Q2["seq"].append(rnd.choice("PEK"))
        elif r_ < 0.5 and Q2["internal"]:
            Q2["internal"][0]["mods"] = [{"v": "i:77", "m": 1}]
        elif r_ < 0.75:
            # another spelling of the same modified residues: the modifications of a residue listed in reverse order,
            # an integral shift written as a float
            for e_ in Q2["internal"]:
                if len(e_["mods"]) > 1 and rnd.random() < 0.7:
                    e_["mods"] = e_["mods"][::-1]
                for m_ in e_["mods"]:
                    if m_["v"].startswith("i:") and rnd.random() < 0.4:
                        m_["v"] = "f:" + m_["v"][2:] + ".0"
        o, r2 = call(lambda: pp.is_subsequence(anngen.build(pp, Q2), anngen.build(pp, T2), order=False))
        evs.append({"tid": f"m{j}.{len(evs)}", "k": "c16", "op": "unordered", "T": T2, "Q": Q2, "out": o,
                    "res": bool(r2) if o == "ret" else False})
        # ... and with decorations written without square brackets (a global isotope label, a labile modification), given
        # as strings: the residues of the query are still residues of the target
        T3 = anngen.annotation(rnd, 1, 8, alphabet="PEK", density=0.3,
                               p={k: 0 for k in ("static", "unknown", "nterm", "cterm", "interval", "charge")} |
                                 {"labile": 0.4, "isotope": 0.5})
        n3 = len(T3["seq"])
        idx3 = rnd.sample(range(n3), rnd.randint(1, n3))
        Q3 = anngen.empty([T3["seq"][p_] for p_ in idx3])
        imap3 = {e["i"]: e["mods"] for e in T3["internal"]}
        Q3["internal"] = [{"i": qi, "mods": copy.deepcopy(imap3[p_])} for qi, p_ in enumerate(idx3) if p_ in imap3]
        if rnd.random() < 0.4:
            Q3["isotope"] = copy.deepcopy(T3["isotope"])
        o, r2 = call(lambda: pp.is_subsequence(anngen.render(Q3), anngen.render(T3), order=False))
        evs.append({"tid": f"m{j}.{len(evs)}", "k": "c16", "op": "unordered", "T": T3, "Q": Q3, "out": o,
                    "res": bool(r2) if o == "ret" else False})
    res = core.validate_traces("Trace_Search", evs, "C16")
    rep.add_trace("modified_targets", evs, res,
                  sig=lambda e: (e["op"], len(e["T"]["seq"]) // 5, e.get("ignore"), e.get("accumulate"),
                                 bool(e["T"]["internal"]), bool(e["T"]["nterm"]), bool(e["T"]["static"])))
    return rep.finish(rule="every target of length 0..9 over {A,K} x every query of length 1..4 (quick samples half of "
                           "lengths 8-9), plus seeded modified targets <=40 with repeated stretches and queries cut from "
                           "them or perturbed; find / ordered containment / coverage(accumulate) / percent_coverage / "
                           "unordered containment, ignore_mods in {F,T}")


def replay(path):
    ev = json.load(open(path))["event"]
    import peptacular as pp
    warnings.simplefilter("ignore")
    new = [ev_find(pp, "R.0", ev["T"], ev["Q"], ev["ignore"], ev.get("via", "ann"))] if ev["op"] == "find" else [ev]
    res = core.validate_traces("Trace_Search", new, "C16")
    rep = core.Report("C16", "quick", 0)
    rep.add_trace("replay", new, res)
    return rep.finish(rule="replay of one recorded case")
