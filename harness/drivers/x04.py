"""X04 (not one of the listed properties; part of the growing specification, see DESIGN.md §12.8b): the annotations built by
the library's own randomizers (peptacular.proforma.randomizer) against spec/ParserMachine.tla - the text written for each is
accepted by the TLA+ parser machine and denotes the annotation the library holds; the library's parse of it equals it.
A new input distribution for the machine (long peptides, localisation scores, crosslink and glycan vocabularies)."""
from __future__ import annotations

import random
import warnings

from harness import core, project
from harness.project import call

RULE_EXTRA = ""


def run(tier, seed, rep):
    warnings.simplefilter("ignore")
    import peptacular as pp
    from peptacular.proforma import randomizer as R
    thorough = tier == "thorough"
    random.seed(seed)          # the randomizers draw from the module-level generator
    evs = []
    decorators = [None, R.top_down_randomizer, R.cross_linking_randomizer, R.glycan_randomizer, R.spectrum_randomizer]
    for i in range(int(__import__('os').environ.get('X04_N', 0)) or (1200 if thorough else 150)):
        level = 1 + i % 2
        deco = decorators[i % len(decorators)]

        def make():
            a = R.compliance_randomizer(level, min_sequence_length=5, max_sequence_length=5 + i % 4,
                                        mod_prob=[0.1, 0.3, 0.6][i % 3], sequence_ambiguity=bool(i % 4))
            if deco is not None:
                r_ = deco(a)
                a = r_ if r_ is not None else a
            return a
        o, a = call(make)
        ev = {"tid": f"r{i}", "k": "random", "level": level, "deco": deco.__name__ if deco else "", "out": o, "text": "",
              "A": {}, "parsedOk": False, "parsed": {}}
        if o == "ret":
            o2, t = call(a.serialize)
            if o2 != "ret":
                ev["out"] = "serialize_" + o2
            else:
                ev["text"] = t
                ev["A"] = project.ann(a)
                o3, b = call(pp.parse, t)
                ev["parsedOk"] = bool(o3 == "ret" and isinstance(b, pp.ProFormaAnnotation))
                ev["parsed"] = project.ann(b) if ev["parsedOk"] else ev["A"]
        evs.append(ev)
    res = core.validate_traces("Trace_Random", evs, "X04", min_per_shard=10)
    rep.add_trace("randomizer_annotations", evs, res, sig=lambda e: (e["level"], e["deco"], len(e["text"]) // 20))
    return rep.finish(rule="seeded annotations from compliance_randomizer (levels 1, 2; 5..8 residues; modification density "
                           "0.1 / 0.3 / 0.6; with and without sequence ambiguity) alone and decorated by the top-down, "
                           "cross-linking, glycan and spectrum randomizers")


def replay(path):
    raise SystemExit("X04 has no replay")
