"""X01 (not one of the listed properties; part of the growing specification, see DESIGN.md §12.9): the foreign notations
around the ProForma core - IP2 / DIA-NN / Casanovo converters and the FASTA reader - against spec/Foreign.tla.
Stage A: MC_Foreign (laws on a bounded annotation space).  Stage B: the inputs MC_Foreign writes out are run through
the real functions.  Verdicts: spec/Trace_Foreign.tla."""
from __future__ import annotations

import io
import json
import random
import warnings

from harness import core, project
from harness.project import call


def outrec(o, v):
    return {"cls": "ret", "val": v} if o == "ret" else {"cls": o[4:] if o.startswith("exc:") else o, "val": ""}


def run(tier, seed, rep):
    warnings.simplefilter("ignore")
    import peptacular as pp
    rnd = random.Random(seed)
    thorough = tier == "thorough"
    w = core.workdir()
    files = [w / "x01_texts.ndjson", w / "x01_laws.ndjson", w / "x01_fasta.ndjson"]
    r = core.model_check("MC_Foreign", "MC_Foreign.cfg", workers=8, xmx="4g",
                         env={"OUT_FILE": str(files[0]), "OUT_FILE2": str(files[1]), "OUT_FILE3": str(files[2])})
    rep.add_mc("MC_Foreign (parser machine reads Convert(WriteForeign(A)) as A; FASTA line machine = denotation)", r)
    conv = {"ip2": pp.convert_ip2_sequence, "diann": pp.convert_diann_sequence, "casanovo": pp.convert_casanovo_sequence}
    texts = [json.loads(x) for x in open(files[0]) if x.strip()]
    laws = [json.loads(x) for x in open(files[1]) if x.strip()]
    fastas = [json.loads(x) for x in open(files[2]) if x.strip()]
    if not thorough:
        texts = rnd.sample(texts, 12000)
        laws = rnd.sample(laws, 2000)
    evs = []
    for i, t in enumerate(texts):
        o, v = call(conv[t["which"]], t["text"])
        evs.append({"tid": f"t{i}", "k": "convert", "which": t["which"], "text": t["text"], "out": outrec(o, v)})
    for i, t in enumerate(laws):
        o, v = call(conv[t["which"]], t["text"])
        ev = {"tid": f"w{i}", "k": "convlaw", "which": t["which"], "A": t["A"], "text": t["text"], "out": outrec(o, v)}
        po, a = call(pp.parse, v) if o == "ret" else ("skipped", None)
        ok = po == "ret" and isinstance(a, pp.ProFormaAnnotation)
        ev["pout"] = "ret" if ok else (po if po != "ret" else "multi")
        ev["parsed"] = project.ann(a) if ok else t["A"]
        evs.append(ev)
    for i, t in enumerate(fastas):
        for sep, via in (("\n", "io"), ("\r\n", "io"), ("\n", "str")):
            text = sep.join(t["lines"])
            if via == "str" and not (text.lstrip().startswith(">") or "\n" in text[:100]):
                continue      # a bare string without '>' and newline is tried as a file name first: not this model
            o, v = call(lambda: pp.parse_fasta(io.StringIO(text) if via == "io" else text))
            evs.append({"tid": f"f{i}.{via}{len(sep)}", "k": "fasta", "lines": t["lines"], "sep": sep, "via": via, "out": o,
                        "res": [list(x) for x in v] if o == "ret" else []})
    res = core.validate_traces("Trace_Foreign", evs, "X01")
    rep.add_trace("foreign_notations", evs, res, sig=lambda e: (e["k"], e.get("which"), e.get("via")))
    return rep.finish(rule="inputs written by TLC from MC_Foreign: every text of <=5 (IP2, Casanovo) / <=6 (DIA-NN) characters "
                           "over each notation's alphabet (quick: 12 000 sampled), every annotation of the law space written "
                           "in each notation, every list of <=4 FASTA lines x {LF, CRLF} x {stream, string}")


def replay(path):
    raise SystemExit("X01 has no replay")
