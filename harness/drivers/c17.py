"""C17 driver: spectrum matching. Verdicts: spec/Trace_Match.tla (reference spec/Match.tla, machine MC_Sweep)."""
from __future__ import annotations

import json
import random
import warnings

from harness import core
from harness.project import call, fix



RULE_EXTRA = ("the sweep machine's invariant proved inductive by Apalache for integers of any size; empty observed spectra; twin peaks (known finding C17_TwinPeaksCountedOnce); coverage after 'all' matching; tolerance exactly 0 off grid; fragment lists mixing charge states.")

def grid_lists(rnd, maxlen, ppm):
    nt, no = rnd.randint(0, maxlen), rnd.randint(0, maxlen)
    if ppm:
        # theoretical values 1000*m Th, observed anywhere on the 1/8 grid near them
        theo8 = sorted(8000 * rnd.randint(1, 4) for _ in range(nt))
        obs8 = sorted(rnd.choice([8000, 16000, 24000, 32000]) + rnd.randint(-12, 12) for _ in range(no))
        tol = rnd.choice([0, 1, 2, 3, 5, 8, 12, 40, 20000])          # j: tolerance = 125*j ppm
    else:
        span = rnd.choice([6, 12, 40])
        theo8 = sorted(800 + rnd.randint(0, span) for _ in range(nt))
        obs8 = sorted(800 + rnd.randint(0, span) for _ in range(no))
        tol = rnd.choice([0, 0, 1, 1, 2, 3, 5, span, 2 * span + 5])    # eighths
    # a spectrum may hold peaks of intensity 0 (and, now and then, nothing but such peaks): they are peaks all the same
    inten = [rnd.choice([1, 2, 2, 5, 10, 0]) for _ in obs8] if rnd.random() < 0.85 else [0 for _ in obs8]
    return theo8, obs8, tol, inten


def real_tol(tt, tol):
    return tol / 8.0 if tt == "th" else 125.0 * tol


def run(tier, seed, rep):
    warnings.simplefilter("ignore")
    import peptacular as pp
    from peptacular.fragmentation import Fragment
    from peptacular.score import get_matched_indices, match_spectra, get_fragment_matches, get_match_coverage, \
        get_matched_intensity_percentage
    rnd = random.Random(seed)
    thorough = tier == "thorough"
    r = core.model_check("MC_Sweep", "MC_Sweep_thorough.cfg" if thorough else "MC_Sweep.cfg", workers=8)
    rep.add_mc("MC_Sweep (two-pointer sweep machine refines Window)", r)
    # the same machine, symbolically: IndInv (which contains Refines) is an inductive invariant for lists of <= 3 / <= 4
    # integers of ANY size and any tolerance >= 0 (Apalache); two probes show that the induction hypothesis is not vacuous
    t0 = __import__("time").time()
    core.apalache("Apa_Sweep", "ApaInit", "IndInv", 0)
    core.apalache("Apa_Sweep", "IndInit", "IndInv", 1)
    core.apalache("Apa_Sweep", "IndInit", "ProbeNeverHi", 0, expect_error=True)
    core.apalache("Apa_Sweep", "IndInit", "ProbeNeverTwoWindows", 0, expect_error=True)
    rep.mc_runs.append(dict(model="Apa_Sweep (Apalache: Init => IndInv; IndInv /\\ Next => IndInv'; IndInv => Refines; "
                                  "unbounded integer values)", states_generated=0, distinct_states=0,
                            wall_s=round(__import__("time").time() - t0, 1)))
    evs = []
    N = 40000 if thorough else 5000
    for i in range(N):
        tt = "ppm" if i % 3 == 0 else "th"
        theo8, obs8, tol, inten = grid_lists(rnd, 30 if i % 4 == 0 else 8, tt == "ppm")
        theo = [x / 8.0 for x in theo8]
        obs = [x / 8.0 for x in obs8]
        base = {"k": "c17", "tt": tt, "theo8": theo8, "obs8": obs8, "tol": tol, "inten": inten}
        which = i % 5
        if which == 0:
            o, res = call(lambda: get_matched_indices(theo, obs, real_tol(tt, tol), tt))
            evs.append({**base, "tid": f"i{i}", "op": "indices", "out": o,
                        "res": [list(x) if x is not None else [] for x in res] if o == "ret" else []})
        else:
            mode = ["all", "closest", "largest", "all"][which - 1]
            o, res = call(lambda: match_spectra(theo, obs, real_tol(tt, tol), tt, mode, [float(x) for x in inten]))
            if o == "ret":
                res = [([] if x is None else list(x)) for x in res] if mode == "all" else [(-1 if x is None else x) for x in res]
            evs.append({**base, "tid": f"m{i}", "op": "match", "mode": mode, "out": o, "res": res if o == "ret" else []})
    res = core.validate_traces("Trace_Match", evs, "C17")
    rep.add_trace("grid_matching", evs, res,
                  sig=lambda e: (e["op"], e.get("mode"), e["tt"], len(e["theo8"]) > 3, len(e["obs8"]) > 3, e["tol"],
                                 len(set(e["obs8"])) < len(e["obs8"])))

    # fragment matches on shuffled inputs, intensity fraction, coverage
    evs = []
    for i in range(8000 if thorough else 1200):
        tt = "ppm" if i % 3 == 0 else "th"
        theo8, obs8, tol, inten = grid_lists(rnd, 10, tt == "ppm")
        n = 12
        ends = rnd.sample(range(1, n + 1), min(len(theo8), n))
        theo8_all = list(theo8) + list(obs8)
        theo8 = theo8[:len(ends)]
        # every third event mixes charge states (m/z order is then not mass order); coverage is per charge label,
        # so those events are judged on the matches and the fraction only
        mixed = i % 3 == 1
        frs = [{"id": e, "t8": t, "z": rnd.choice([1, 2, 3]) if mixed else 1} for e, t in zip(ends, theo8)]
        rnd.shuffle(frs)
        distinct = i % 2 == 0
        if distinct:
            obs8 = sorted(set(obs8))
            inten = inten[:len(obs8)]
        peaks = [{"m8": m, "inten": it} for m, it in zip(obs8, inten)]
        rnd.shuffle(peaks)

        # the parent is written as a plain string, with a charge suffix, an ambiguity group, decorations, or given as an
        # annotation object: n residues in every case
        parent = rnd.choice(["A" * n, "A" * n, "A" * n + "/2", "(?AA)" + "A" * (n - 2), "[Acetyl]-" + "A" * n,
                             "A" * (n - 1) + "A[+1.5]", "<13C>" + "A" * n, "{Glycan:Hex}" + "A" * n + "/3", "obj"])
        if parent == "obj":
            parent = pp.parse("A" * n + "/2")

        def mk():
            return [Fragment(charge=f["z"], ion_type="b", start=0, end=f["id"], monoisotopic=True, isotope=0, loss=0.0,
                             parent_sequence=parent, mass=f["t8"] / 8.0 * f["z"], neutral_mass=f["t8"] / 8.0 * f["z"],
                             mz=f["t8"] / 8.0,
                             sequence="A" * f["id"], unmod_sequence="A" * f["id"], internal=False) for f in frs]
        base = {"k": "c17", "tt": tt, "tol": tol, "frags": frs, "peaks": peaks}
        o, ms = call(lambda: get_fragment_matches(mk(), [p["m8"] / 8.0 for p in peaks], [float(p["inten"]) for p in peaks],
                                                  real_tol(tt, tol), tt, "all"))
        evs.append({**base, "tid": f"f{i}", "op": "fragmatch", "out": o,
                    "res": [{"id": m.fragment.end, "m8": int(round(m.mz * 8)), "inten": int(m.intensity)} for m in ms]
                    if o == "ret" else []})
        if o == "ret" and not mixed:
            o6, covall = call(lambda: get_match_coverage(ms))
            evs.append({**base, "tid": f"a{i}", "op": "cov1", "n": n, "out": o6,
                        "res": (covall.get("+b", []) if o6 == "ret" else [])})
        if o == "ret" and not mixed and i % 2:
            # the same spans again as neutral-loss / isotope variants at other m/z values: distinct fragments, each counted
            vars_ = [{"id": f["id"], "t8": rnd.choice(theo8_all), "z": 1, "loss": rnd.choice([-18.010565, -17.026549, 0.0]),
                      "iso": rnd.choice([0, 1])} for f in frs if rnd.random() < 0.5]
            vars_ = [v for v in vars_ if v["loss"] != 0.0 or v["iso"] != 0]
            frs2 = frs + vars_

            def mk2():
                return [Fragment(charge=1, ion_type="b", start=0, end=f["id"], monoisotopic=True, isotope=f.get("iso", 0),
                                 loss=f.get("loss", 0.0), parent_sequence=parent, mass=f["t8"] / 8.0, neutral_mass=f["t8"] / 8.0,
                                 mz=f["t8"] / 8.0, sequence="A" * f["id"], unmod_sequence="A" * f["id"], internal=False)
                        for f in frs2]
            o7, cov7 = call(lambda: get_match_coverage(get_fragment_matches(
                mk2(), [p["m8"] / 8.0 for p in peaks], [float(p["inten"]) for p in peaks], real_tol(tt, tol), tt, "all")))
            evs.append({**base, "frags": [{"id": f["id"], "t8": f["t8"], "z": 1} for f in frs2], "tid": f"v{i}", "op": "cov1",
                        "n": n, "out": o7, "res": (cov7.get("+b", []) if o7 == "ret" else [])})
        if o == "ret":
            o2, pct = call(lambda: get_matched_intensity_percentage(ms, [float(p["inten"]) for p in peaks]))
            evs.append({**base, "tid": f"p{i}", "op": "pct", "out": o2, "res": fix(pct) if o2 == "ret" else [0, 0]})
        mode1 = rnd.choice(["closest", "largest"])
        o3, ms1 = call(lambda: get_fragment_matches(mk(), [p["m8"] / 8.0 for p in peaks],
                                                    [float(p["inten"]) for p in peaks], real_tol(tt, tol), tt, mode1))
        evs.append({**base, "tid": f"g{i}", "op": "fragmatch1", "mode": mode1, "out": o3,
                    "res": [{"id": m.fragment.end, "m8": int(round(m.mz * 8)), "inten": int(m.intensity)} for m in ms1]
                    if o3 == "ret" else []})
        if o3 == "ret" and not mixed:
            o5, cov1 = call(lambda: get_match_coverage(ms1))
            evs.append({**base, "tid": f"d{i}", "op": "cov1", "n": n, "out": o5,
                        "res": (cov1.get("+b", []) if o5 == "ret" else [])})
            o4, cov = call(lambda: get_match_coverage(ms1))
            evs.append({"k": "c17", "tid": f"c{i}", "op": "cov", "n": n, "out": o4,
                        "matchedEnds": [m.fragment.end for m in ms1],
                        "res": (cov.get("+b", []) if o4 == "ret" else [])})
    # off-grid absolute tolerance, exact decimals
    for i in range(6000 if thorough else 800):
        nt, no = rnd.randint(0, 8), rnd.randint(0, 10)
        theo = sorted(round(rnd.uniform(100, 110), rnd.choice([2, 4, 6])) for _ in range(nt))
        obs = [round(rnd.uniform(100, 110), rnd.choice([2, 4, 6])) for _ in range(no)]
        # peaks on and right next to theoretical values (decides what a tolerance of exactly 0 means)
        obs += [round(t + d, 6) for t in theo for d in (0.0, 0.05, -0.03, 0.0001) if rnd.random() < 0.3]
        obs = sorted(obs)
        ftol = rnd.choice([0.01, 0.5, 0.25, 1.5, 0.003, 20.0, 0.0, 0.0])
        o, res = call(lambda: match_spectra(theo, obs, ftol, "th", "all"))
        evs.append({"k": "c17", "tid": f"o{i}", "op": "fix", "theo": [fix(x) for x in theo], "obs": [fix(x) for x in obs],
                    "ftol": fix(ftol), "out": o, "res": [([] if x is None else list(x)) for x in res] if o == "ret" else []})
    res = core.validate_traces("Trace_Match", evs, "C17")
    rep.add_trace("fragment_matches_fraction_coverage_offgrid", evs, res,
                  sig=lambda e: (e["op"], e.get("tt"), e.get("tol"), len(e.get("frags", e.get("theo", []))),
                                 len(e.get("peaks", e.get("obs", [])))))
    return rep.finish(rule="seeded pairs of sorted lists (length 0..30) on a 1/8 Th grid with duplicates and window "
                           "overlaps, tolerance from 0 to beyond the range, th and ppm (theoretical 1000*m, tolerance "
                           "125*j ppm so every float operation is exact), modes all/closest/largest; shuffled fragment "
                           "matches, matched-intensity fraction, coverage; off-grid decimals for th")


def replay(path):
    ev = json.load(open(path))["event"]
    res = core.validate_traces("Trace_Match", [ev], "C17")
    rep = core.Report("C17", "quick", 0)
    rep.add_trace("replay (recorded event re-validated)", [ev], res)
    return rep.finish(rule="replay of one recorded event")
