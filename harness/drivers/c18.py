"""C18 driver: condensing modifications to mass shifts preserves the peptide. Verdicts: spec/Trace_Mass.tla (CondenseFails)."""
from __future__ import annotations

import json
import random
import warnings

from harness import core, anngen, project
from harness.project import call, fix
from harness.drivers.c02 import adduct_string
from harness.drivers.c03 import cap_multipliers

RES = "ACDEFGHIKLMNPQRSTVWY"



RULE_EXTRA = ("annotation input: second call on the same object and the argument's own serialisation afterwards; result type.")

def gen(rnd):
    n = rnd.randint(1, 15)
    A = anngen.annotation(rnd, n, n, alphabet=RES, kinds="massy2", density=0.3,
                          p={"labile": 0.2, "unknown": 0.15, "interval": 0.15, "charge": 0, "isotope": 0, "static": 0,
                             "nterm": 0.3, "cterm": 0.3})
    cap_multipliers(A, 3)
    if rnd.random() < 0.3:
        A["static"] = [{"v": "s:" + s, "m": 1} for s in rnd.sample(anngen.STATICS_MASSY, rnd.choice([1, 2]))]
    if rnd.random() < 0.25:
        # one label, or two of different elements (each applies to its own element)
        A["isotope"] = [{"v": "s:" + x, "m": 1} for x in rnd.sample(["13C", "15N", "18O", "D"], rnd.choice([1, 1, 2]))]
    if rnd.random() < 0.15:
        # two modifications that nearly cancel on one residue or terminus: the net shift is below 1e-4
        # (written by Python in exponent form)
        name, neg = rnd.choice([("Oxidation", "-15.9949"), ("Acetyl", "-42.0106"), ("Phospho", "-79.9663"),
                                ("Methyl", "-14.01564"), ("Carbamidomethyl", "-57.02147")])
        pair = [{"v": "s:" + name, "m": 1}, {"v": "f:" + neg, "m": 1}]
        where = rnd.choice(["res", "res", "nterm", "cterm"])
        if where == "res":
            p_ = rnd.randrange(n)
            A["internal"] = sorted([e for e in A["internal"] if e["i"] != p_] + [{"i": p_, "mods": pair}], key=lambda e: e["i"])
        else:
            A[where] = pair
    if rnd.random() < 0.3:
        A["charge"] = rnd.choice([1, 2, 3, -1])
        if rnd.random() < 0.4:
            A["adducts"] = [{"v": "s:" + adduct_string(rnd), "m": 1}]
    if rnd.random() < 0.12:
        # a labile group written as formulas (its mass has more decimals than any table keeps)
        A["labile"] = [{"v": "s:" + rnd.choice(anngen.FORMULAS[:8]), "m": rnd.choice([1, 1, 2])} for _ in range(rnd.choice([1, 1, 2]))]
    if rnd.random() < 0.1:
        # two rules that share a target, the one with several targets first or second
        a_, b_ = rnd.choice([("[Oxidation]@M,C", "[Methyl]@C"), ("[Formula:C2H4]@K,R", "[3.5]@N-Term,K"), ("[1]@P,E", "[Methyl][Oxidation]@E"),
                             ("[Phospho]@S,T,Y", "[+15.995]@T")])
        A["static"] = [{"v": "s:" + x, "m": 1} for x in ((a_, b_) if rnd.random() < 0.7 else (b_, a_))]
    if rnd.random() < 0.1:
        A = anngen.empty(A["seq"])
    return A


def condense_event(pp, tid, A, plus, prec, via):
    text = anngen.render(A)
    src = text if via == "str" else anngen.build(pp, A)
    if via == "str":
        project.maybe_poison(pp, text, tid)
    m_first = None
    if via == "ann" and int(tid[1:].split(".")[0] or 0) % 4 == 0:
        # the object is weighed first (as one does to compare masses), then condensed
        o0, m_first = call(lambda: pp.mass(src, charge=0))
        if o0 != "ret":
            m_first = None
    o, res = call(lambda: pp.condense_to_mass_mods(src, include_plus=plus, precision=prec))
    if o == "ret" and not isinstance(res, str):
        o, res = "ret_not_a_string:" + type(res).__name__, ""
    ev = {"tid": tid, "k": "condense", "A": A, "text": text, "plus": plus, "prec": prec, "via": via, "out": o,
          "res": res if o == "ret" else "", "parsedOk": False, "parsed": anngen.empty(""), "massIn": [0, 0], "massOut": [0, 0],
          "again": "", "argText": text}
    if o != "ret":
        return ev
    if via == "ann":
        # the annotation object that was passed in is unchanged and gives the same answer a second time
        o_a, again = call(lambda: pp.condense_to_mass_mods(src, include_plus=plus, precision=prec))
        ev["again"] = again if o_a == "ret" and isinstance(again, str) else "raised:" + o_a
        o_t, t_ = call(src.serialize)
        ev["argText"] = t_ if o_t == "ret" else "raised:" + o_t
    else:
        ev["again"] = res
    o2, b = call(pp.parse, res)
    if o2 == "ret" and isinstance(b, pp.ProFormaAnnotation):
        ev["parsedOk"] = True
        ev["parsed"] = project.ann(b)
        o3, m = call(lambda: (pp.mass(text, charge=0), pp.mass(res, charge=0)))
        if o3 == "ret":
            ev["massIn"], ev["massOut"] = fix(m[0]), fix(m[1])
            if m_first is not None and abs(m_first - m[0]) > 1e-9:
                ev["out"] = "mass_of_the_object_differs_from_mass_of_its_text"
        else:
            ev["out"] = "mass_of_input_or_result_" + o3
    return ev


def _job(args):
    import peptacular as pp
    warnings.simplefilter("ignore")
    return condense_event(pp, *args)


def run(tier, seed, rep):
    warnings.simplefilter("ignore")
    import peptacular as pp
    rnd = random.Random(seed)
    thorough = tier == "thorough"
    r = core.model_check("MC_Mass", "MC_Mass.cfg", workers=16, xmx="6g")
    rep.add_mc("MC_Mass (reference laws used by the condensation clauses)", r)
    jobs = [(f"c{i}", gen(rnd), rnd.random() < 0.5, rnd.choice([3, 4, 5, 6, 6, 7, 8]), "str" if i % 2 else "ann")
            for i in range(25000 if thorough else 2500)]
    evs = core.pmap(_job, jobs)
    res = core.validate_traces("Trace_Mass", evs, "C18", min_per_shard=80)
    rep.add_trace("condense_to_mass_mods", evs, res,
                  sig=lambda e: (e["plus"], e["prec"], e["via"], tuple(sorted(k for k in ("labile", "static", "isotope",
                                 "unknown", "nterm", "cterm", "internal", "intervals", "adducts") if e["A"][k])),
                                 e["A"]["charge"] != 0))
    return rep.finish(rule="seeded annotations (residue, terminal, labile, static incl. N-Term/C-Term, isotope labels, "
                           "unknown-position and interval modifications, charge and adducts present or absent) x include_plus "
                           "x precision 3..8 x string/annotation input")


def replay(path):
    ev = json.load(open(path))["event"]
    import peptacular as pp
    warnings.simplefilter("ignore")
    new = [condense_event(pp, "R.0", ev["A"], ev["plus"], ev["prec"], ev["via"])]
    res = core.validate_traces("Trace_Mass", new, "C18")
    rep = core.Report("C18", "quick", 0)
    rep.add_trace("replay", new, res)
    return rep.finish(rule="replay of one recorded case")
