"""C07 driver: digested peptides keep their modifications, their mass and their place.
Verdicts: spec/Trace_DigestMods.tla (Slice from Annotation.tla, spans from Digest.tla, water from Chem.tla)."""
from __future__ import annotations

import json
import random
import warnings

from harness import core, anngen, project
from harness.project import call, fix
from harness.drivers.c06 import PROTEASES, USER_RULES, named, render as render_rule
from harness.drivers.c03 import cap_multipliers

RES = "ACDEFGHIKLMNPQRSTVWY"



RULE_EXTRA = ('editing a returned peptide changes nothing else.')

def gen(rnd, pp, rule_text, conserve, allow_interval=True):
    n = rnd.randint(1, 40)
    A = anngen.annotation(rnd, n, n, alphabet=RES, kinds="massy2" if conserve else "all", intervals=False, density=0.2,
                          p={"labile": 0.15, "unknown": 0.0 if conserve else 0.1, "charge": 0, "isotope": 0.2, "static": 0,
                             "nterm": 0.3, "cterm": 0.3})
    cap_multipliers(A, 3)
    if conserve and A["isotope"]:
        A["isotope"] = [{"v": "s:" + rnd.choice(["13C", "15N", "18O", "D"]), "m": 1}]
    if rnd.random() < 0.25:
        pool = [s for s in anngen.STATICS_MASSY if "-term" not in s.lower()]
        A["static"] = [{"v": "s:" + s, "m": 1} for s in rnd.sample(pool, 1)]
    if conserve and rnd.random() < 0.2:
        # a global label together with a numeric rule on the most frequent residue (several targets in one protein)
        seq = A["seq"]
        top = max(sorted(set(seq)), key=seq.count)
        A["isotope"] = [{"v": "s:" + rnd.choice(["13C", "15N"]), "m": 1}]
        A["static"] = [{"v": "s:[" + rnd.choice(["+10.5", "1", "-2.25"]) + "]@" + top, "m": 1}]
    if allow_interval and not conserve and n >= 3 and rnd.random() < 0.3:
        # an interval that does not straddle a cut of this rule
        sites = set(pp.get_cleavage_sites("".join(A["seq"]), rule_text))
        s = rnd.randint(0, n - 2)
        e = rnd.randint(s + 1, min(n, s + 4))
        if not any(s < c < e for c in sites):
            A["intervals"] = [{"s": s, "e": e, "amb": rnd.random() < 0.3, "mods": [anngen.mod(rnd, "num")]}]
            # sometimes a second interval that begins where the first one ends (same condition on the cuts)
            if e < n and rnd.random() < 0.5:
                e2 = rnd.randint(e + 1, min(n, e + 3))
                if not any(e < c < e2 for c in sites):
                    A["intervals"].append({"s": e, "e": e2, "amb": rnd.random() < 0.3, "mods": [anngen.mod(rnd, "num")]})
    return A


def peptides_event(pp, tid, A, rule, mc, semi, conserve, rnd, generator=None):
    text = anngen.render(A)
    rx = render_rule(rule) if rule else ""

    # ONE protein object for every object-input digest of this event; it has already been weighed and composed
    # (the usual first questions about a protein) - neither may matter for what a digest returns
    shared = anngen.build(pp, A)
    if len(A["internal"]) >= 2 and len(text) % 2:
        # the same protein, its residue modifications attached right to left (the object stores them in that order)
        import copy
        from peptacular.proforma.proforma_dataclasses import Mod
        A0 = copy.deepcopy(A)
        A0["internal"] = []
        shared = anngen.build(pp, A0)
        for e_ in reversed(A["internal"]):
            shared.add_internal_mod(e_["i"], [Mod(anngen.pyval(m_["v"]), m_["m"]) for m_ in e_["mods"]], append=True)
    if len(A["intervals"]) >= 2 and len(text) % 3:
        # the same protein, its intervals held in another order than the sequence's (an object may list them in any order)
        shared.intervals = list(reversed(shared.intervals))
    call(lambda: pp.mass(shared, charge=0))
    call(lambda: pp.comp(shared, estimate_delta=True))
    call(lambda: pp.condense_static_mods(shared))

    def digest(rt):
        src = text if rnd.random() < 0.5 else shared
        if generator:
            return list(getattr(pp, generator)(src, return_type=rt))
        return list(pp.digest(src, rx, missed_cleavages=mc, semi=semi, return_type=rt))

    def f():
        ss, as_, sp, st, an = digest("str-span"), digest("annotation-span"), digest("span"), digest("str"), digest("annotation")
        prot = pp.mass(text, charge=0) if conserve else 0.0
        items = []
        for k, ((s_txt, span), (ann, span2)) in enumerate(zip(ss, as_)):
            o2, back = call(pp.parse, ann.serialize())
            searched = k < 12
            found = list(pp.find_subsequence_indices(text, ann.serialize())) if searched else []
            items.append({"span": list(span2), "text": ann.serialize(), "ann": project.ann(ann),
                          "reparseEq": bool(o2 == "ret" and back == ann and ann == back), "searched": searched, "found": found,
                          "mass": fix(pp.mass(ann.serialize(), charge=0)) if conserve else [0, 0]})
        # peptides handed out must be independent of the protein and of each other: edit one, digest the same object again
        prot_obj = anngen.build(pp, A)
        first = list(getattr(pp, generator)(prot_obj, return_type="annotation")) if generator else \
            list(pp.digest(prot_obj, rx, missed_cleavages=mc, semi=semi, return_type="annotation"))
        before = [x.serialize() for x in first]
        if first:
            from peptacular.proforma.proforma_dataclasses import Mod
            victim = first[0]
            victim.add_nterm_mods([Mod("EDITED", 1)], append=True)
            victim.add_cterm_mods([Mod("EDITED", 1)], append=True)
            victim.add_static_mods([Mod("[EDITED]@K", 1)], append=True)
            victim.add_isotope_mods([Mod("13C", 1)], append=True)
            victim.add_labile_mods([Mod("EDITED", 1)], append=True)
        again = list(getattr(pp, generator)(prot_obj, return_type="annotation")) if generator else \
            list(pp.digest(prot_obj, rx, missed_cleavages=mc, semi=semi, return_type="annotation"))
        independent = bool([x.serialize() for x in again] == before and [x.serialize() for x in first[1:]] == before[1:]
                           and prot_obj.serialize() == text)
        return items, [list(x) for x in sp], list(st), [a.serialize() for a in an], [x[0] for x in ss], prot, independent
    o, r = call(f)
    ev = {"tid": tid, "k": "peptides", "A": A, "text": text, "rule": rule or named("no-cleave"), "mc": mc, "semi": semi,
          "conserve": bool(conserve), "checkSpans": generator is None, "generator": generator or "", "out": o}
    if o == "ret":
        ev.update(items=r[0], spansOnly=r[1], strsOnly=r[2], annTexts=r[3], strSpanTexts=r[4], protMass=fix(r[5]),
                  independent=r[6])
    else:
        ev.update(items=[], spansOnly=[], strsOnly=[], annTexts=[], strSpanTexts=[], protMass=[0, 0], independent=True)
    return ev


def run(tier, seed, rep):
    warnings.simplefilter("ignore")
    import peptacular as pp
    rnd = random.Random(seed)
    thorough = tier == "thorough"
    r = core.model_check("MC_Digest", "MC_Digest.cfg")
    rep.add_mc("MC_Digest (zero-missed-cleavage spans partition the protein; semi-span machine)", r)
    rules = [named(p) for p in PROTEASES if p != "non-specific"] + USER_RULES
    evs = []
    for i in range(12000 if thorough else 1300):
        rule = rnd.choice(rules)
        conserve = i % 3 == 0
        semi = rnd.random() < 0.3
        A = gen(rnd, pp, render_rule(rule), conserve, allow_interval=not semi)
        if conserve:
            evs.append(peptides_event(pp, f"c{i}", A, rule, 0, False, True, rnd))
        elif i % 10 == 1:
            g = rnd.choice(["get_left_semi_enzymatic_sequences", "get_right_semi_enzymatic_sequences",
                            "get_semi_enzymatic_sequences", "get_non_enzymatic_sequences"])
            A["seq"] = A["seq"][:12]
            A["internal"] = [e for e in A["internal"] if e["i"] < len(A["seq"])]
            A["intervals"] = []
            evs.append(peptides_event(pp, f"g{i}", A, None, 0, False, False, rnd, generator=g))
        else:
            evs.append(peptides_event(pp, f"p{i}", A, rule, rnd.choice([0, 1, 2, 3]), semi, False, rnd))
    evs = [e for e in evs if len(e["items"]) <= 150]
    res = core.validate_traces("Trace_DigestMods", evs, "C07", min_per_shard=40)
    npep = sum(len(e["items"]) for e in evs)
    rep.add_trace("digested_peptides", evs, res,
                  sig=lambda e: (e["rule"]["name"] or render_rule(e["rule"]), e["mc"], e["semi"], e["conserve"], e["generator"],
                                 tuple(sorted(k for k in ("labile", "static", "isotope", "unknown", "nterm", "cterm", "internal",
                                                          "intervals") if e["A"][k]))))
    return rep.finish(rule="seeded modified proteins of length 1..40 (residue, terminal, labile, static, isotope-label "
                           "modifications; intervals not straddling a cut) x 18 named proteases + 11 user regexes x missed "
                           "cleavages 0..3 x semi x all five return types; semi-/non-enzymatic generators; mass "
                           "conservation on complete zero-missed-cleavage digests", extra={"peptides_checked": npep})


def replay(path):
    ev = json.load(open(path))["event"]
    import peptacular as pp
    warnings.simplefilter("ignore")
    new = [peptides_event(pp, "R.0", ev["A"], None if ev["generator"] else ev["rule"], ev["mc"], ev["semi"], ev["conserve"],
                          random.Random(0), generator=ev["generator"] or None)]
    res = core.validate_traces("Trace_DigestMods", new, "C07")
    rep = core.Report("C07", "quick", 0)
    rep.add_trace("replay", new, res)
    return rep.finish(rule="replay of one recorded case")
