"""C01 driver: ProForma text and annotation objects are inverses of each other.

Stage A/B: spec/MC_ProForma.tla enumerates the bounded feature cross product, checks the reference-layer laws and
emits (annotation, texts) cases; every text is parsed by the real code.  Stage C: seeded abstract annotations up
to length 25 and 1-3 chains.  All verdicts: spec/Trace_ProForma.tla.
"""
from __future__ import annotations

import json
import random
import warnings

from harness import core, anngen, project
from harness.project import call



RULE_EXTRA = ("arbitrary decimals (1-10 places) as mass shifts; vocabulary names containing > , [ ] ( ) ' / + . in every slot incl. global rules; terminal targets spelled N-term / C-term; a second parse after the first result was edited; TLC-emitted cases written in six parts and processed in batches.")

def rt_event(pp, tid, A, plus, zplus, text):
    ev = {"tid": tid, "k": "rt", "A": A, "plus": plus, "zplus": zplus, "text": text}
    out, a = call(pp.parse, text)
    ev["out"] = out
    blank = anngen.empty("")
    if out != "ret" or not isinstance(a, pp.ProFormaAnnotation):
        if out == "ret":
            ev["out"] = "exc:NotASingleAnnotation"
        ev.update(parsed=blank, ser0="", ser1="", re0=blank, re1=blank, eq=False, built0="", built1="", again=blank)
        return ev
    ev["parsed"] = project.ann(a)
    o0, s0 = call(a.serialize, False)
    o1, s1 = call(lambda: pp.serialize(a, True))
    ev["ser0"] = s0 if o0 == "ret" else o0
    ev["ser1"] = s1 if o1 == "ret" else o1
    eq = True
    for key, s in (("re0", ev["ser0"]), ("re1", ev["ser1"])):
        o, b = call(pp.parse, s)
        if o == "ret" and isinstance(b, pp.ProFormaAnnotation):
            ev[key] = project.ann(b)
            oe, e_ = call(lambda: bool((b == a) and (a == b)))     # a comparison may raise: that is "not equal"
            eq = eq and oe == "ret" and e_
        else:
            ev[key] = blank
            eq = False
    ev["eq"] = bool(eq)
    # parsing is a function of the text: editing a returned object must not change what the next parse returns
    def edit_and_reparse():
        from peptacular.proforma.proforma_dataclasses import Mod
        a.add_internal_mod(0, [Mod("EDIT", 1)], append=True)
        a.add_nterm_mods([Mod("EDIT", 1)], append=True)
        a.add_labile_mods([Mod("EDIT", 1)], append=True)
        if a.intervals:
            for iv in a.intervals:
                if iv.mods is not None:
                    iv.mods.append(Mod("EDIT", 1))
        return pp.parse(text)
    o, again = call(edit_and_reparse)
    ev["again"] = project.ann(again) if o == "ret" and isinstance(again, pp.ProFormaAnnotation) else blank
    o, b = call(lambda: anngen.build(pp, A))
    ev["built0"] = call(b.serialize, False)[1] if o == "ret" else o
    ev["built1"] = call(b.serialize, True)[1] if o == "ret" else o
    if not isinstance(ev["built0"], str):
        ev["built0"] = repr(ev["built0"])
    if not isinstance(ev["built1"], str):
        ev["built1"] = repr(ev["built1"])
    return ev


def _proj_multi(pp, m):
    if isinstance(m, pp.ProFormaAnnotation):
        return [project.ann(m)], []
    return [project.ann(x) for x in m.annotations], [bool(c) for c in m.connections]


def multi_event(pp, tid, chains, links, plus, zplus, text):
    ev = {"tid": tid, "k": "multi", "chains": chains, "links": links, "plus": plus, "zplus": zplus, "text": text}
    out, m = call(pp.parse, text)
    ev["out"] = out
    if out != "ret":
        ev.update(parsedChains=[], parsedLinks=[], ser0="", ser1="", reout0="", reout1="", re0=[], re1=[],
                  relinks0=[], relinks1=[])
        return ev
    ev["parsedChains"], ev["parsedLinks"] = _proj_multi(pp, m)
    for i, p in ((0, False), (1, True)):
        o, s = call(lambda: pp.serialize(m, p))
        ev[f"ser{i}"] = s if o == "ret" else o
        o2, m2 = call(pp.parse, ev[f"ser{i}"])
        ev[f"reout{i}"] = o2
        if o2 == "ret":
            ev[f"re{i}"], ev[f"relinks{i}"] = _proj_multi(pp, m2)
        else:
            ev[f"re{i}"], ev[f"relinks{i}"] = [], []
    return ev


def sig(e):
    As = [e["A"]] if e["k"] == "rt" else e["chains"]
    feats = []
    for A in As:
        feats.append((len(A["seq"]), tuple(sorted(k for k in ("labile", "static", "isotope", "unknown", "nterm", "cterm",
                                                           "internal", "intervals", "adducts") if A[k])),
                      A["charge"] != 0, tuple(sorted({m["v"][:6] for e2 in A["internal"] for m in e2["mods"]}))))
    return (e["k"], e["plus"], e["zplus"], tuple(feats), tuple(e.get("links", [])))


def _rt_job(args):
    import peptacular as pp
    warnings.simplefilter("ignore")
    return rt_event(pp, *args)


def run(tier, seed, rep):
    warnings.simplefilter("ignore")
    import peptacular as pp
    rnd = random.Random(seed)
    thorough = tier == "thorough"

    # stage A + B: laws of the reference layer and exhaustive bounded cases emitted by TLC
    out = core.workdir() / "c01_cases.ndjson"
    r = core.model_check("MC_ProForma", "MC_ProForma_thorough.cfg" if thorough else "MC_ProForma.cfg",
                         env={"OUT_FILE": str(out)}, workers=8, xmx="6g")
    rep.add_mc("MC_ProForma", r)
    # the cases come in six files (see MC_ProForma!EmitCases); they are stepped through the real parser in batches so
    # that the thorough tier (1.1 million annotations) stays within memory
    def batches():
        jobs, i = [], 0
        for part in range(1, 7):
            with open(f"{out}.{part}") as fh:
                for line in fh:
                    if not line.strip():
                        continue
                    c = json.loads(line)
                    A = c["A"]
                    jobs.append((f"G{i}.0", A, False, False, c["text0"]))
                    if c["text1"] != c["text0"]:
                        jobs.append((f"G{i}.1", A, True, False, c["text1"]))
                    if c["text2"] != c["text1"]:
                        jobs.append((f"G{i}.2", A, True, True, c["text2"]))
                    i += 1
                    if len(jobs) >= 150000:
                        yield jobs
                        jobs = []
        if jobs:
            yield jobs
    for b, jobs in enumerate(batches()):
        evs = core.pmap(_rt_job, jobs, chunksize=64)
        res = core.validate_traces("Trace_ProForma", evs, "C01")
        rep.add_trace(f"tlc_generated_cases_{b}", evs, res, sig=sig)

    # stage C: seeded abstract annotations, single chains
    evs = []
    for i in range(40000 if thorough else 4000):
        A = anngen.annotation(rnd, 1, 25)
        plus, zplus = rnd.random() < 0.5, rnd.random() < 0.3
        evs.append(rt_event(pp, f"R{i}", A, plus, zplus, anngen.render(A, plus, zplus)))
    # multi-chain
    for i in range(12000 if thorough else 1500):
        nch = rnd.choice([2, 2, 3])
        chains = [anngen.annotation(rnd, 1, 8) for _ in range(nch)]
        links = [rnd.random() < 0.4 for _ in range(nch - 1)]
        plus, zplus = rnd.random() < 0.5, False
        evs.append(multi_event(pp, f"M{i}", chains, links, plus, zplus, anngen.render_multi(chains, links, plus, zplus)))
    res = core.validate_traces("Trace_ProForma", evs, "C01")
    rep.add_trace("seeded_annotations", evs, res, sig=sig)
    return rep.finish(
        rule="TLC enumerates every annotation of the bounded space (sequences over {P,K} up to MaxLen, up to MaxMods "
             "placements over all slots x 15-value vocabulary, one interval shape, charge, adducts) and its three "
             "spellings; seeded generator adds annotations of length <=25 with every modification kind and 2-3 chain "
             "strings. distinct = distinct feature signatures (slots used, value kinds, spelling, links)")


def replay(path):
    import peptacular as pp
    warnings.simplefilter("ignore")
    ev = json.load(open(path))["event"]
    rep = core.Report("C01", "quick", 0)
    if ev["k"] == "rt":
        new = [rt_event(pp, "R.0", ev["A"], ev["plus"], ev["zplus"], ev["text"])]
    else:
        new = [multi_event(pp, "R.0", ev["chains"], ev["links"], ev["plus"], ev["zplus"], ev["text"])]
    res = core.validate_traces("Trace_ProForma", new, "C01")
    rep.add_trace("replay", new, res)
    return rep.finish(rule="replay of one recorded case")
