"""X02 (not one of the listed properties; part of the growing specification, see DESIGN.md §12.8b): the span builders of
peptacular.spans - the loops under digest() - against spec/Spans.tla.
Stage A: MC_Spans (the machine refines Digest!Spans on every instance with n <= 5; nothing is yielded twice).
Stage C: the real generators on every small argument combination, item by item.  Verdicts: spec/Trace_Spans.tla."""
from __future__ import annotations

import itertools
import random
import warnings

from harness import core
from harness.project import call

RULE_EXTRA = ""


def b(x):
    return -1 if x is None else x


def spans_out(o, v):
    return [list(x) for x in v] if o == "ret" else []


def run(tier, seed, rep):
    warnings.simplefilter("ignore")
    from peptacular import spans as S
    rnd = random.Random(seed)
    thorough = tier == "thorough"
    r = core.model_check("MC_Spans", "MC_Spans.cfg", workers=8)
    rep.add_mc("MC_Spans (the span machine refines Digest!Spans; no span twice; semi / non-enzymatic / coverage laws)", r)
    evs = []
    nmax = 7 if thorough else 6
    bounds = [None, 0, 1, 2, 3, 5, 9]
    i = 0
    # one parent span, the three elementary builders
    for s in range(0, 3):
        for e in range(s, nmax + 1):
            for v in (0, 2):
                for mn, mx in itertools.product(bounds, bounds):
                    sp = (s, e, v)
                    for k, fn in (("nonenz", S.build_non_enzymatic_spans), ("left", S.build_left_semi_spans),
                                  ("right", S.build_right_semi_spans)):
                        if not thorough and rnd.random() < 0.5:
                            continue
                        o, res = call(lambda: list(fn(sp, mn, mx)))
                        evs.append({"tid": f"e{i}", "k": k, "sp": list(sp), "mn": b(mn), "mx": b(mx), "out": o,
                                    "res": spans_out(o, res)})
                        i += 1
    # site sets: enzymatic spans, semi spans of them, the whole of build_spans, coverage of the result
    for n in range(1, nmax + 1):
        subsets = [c for k in range(0, n + 2) for c in itertools.combinations(range(0, n + 1), k)]
        if not thorough and len(subsets) > 40:
            subsets = rnd.sample(subsets, 40) + [tuple(range(0, n + 1)), tuple(range(1, n)), ()]
        for sites in subsets:
            for mc in (0, 1, 2, 5):
                combos = list(itertools.product([None, 1, 2, 4], [None, 1, 3, n, n + 2]))
                if not thorough:
                    combos = rnd.sample(combos, 6)
                for mn, mx in combos:
                    given = list(sites)
                    rnd.shuffle(given)          # the sites come in any order, possibly twice
                    if given and rnd.random() < 0.3:
                        given.append(given[0])
                    o, enz = call(lambda: list(S.build_enzymatic_spans(n, list(given), mc, mn, mx)))
                    evs.append({"tid": f"z{i}", "k": "enz", "n": n, "sites": sorted(set(sites)), "mc": mc, "mn": b(mn), "mx": b(mx),
                                "out": o, "res": spans_out(o, enz)})
                    i += 1
                    if o == "ret":
                        o2, semi = call(lambda: list(S.build_semi_spans(list(enz), mn, mx)))
                        evs.append({"tid": f"s{i}", "k": "semi", "spans": spans_out(o, enz), "mn": b(mn), "mx": b(mx), "out": o2,
                                    "res": spans_out(o2, semi)})
                        i += 1
                    for semi_ in (False, True):
                        o3, built = call(lambda: list(S.build_spans(n, list(given), mc, mn, mx, semi_)))
                        evs.append({"tid": f"b{i}", "k": "build", "n": n, "sites": sorted(set(sites)), "mc": mc, "mn": b(mn),
                                    "mx": b(mx), "semi": semi_, "out": o3, "res": spans_out(o3, built)})
                        i += 1
                        if o3 == "ret" and rnd.random() < 0.3:
                            acc = rnd.random() < 0.5
                            o4, cov = call(lambda: S.calculate_span_coverage(list(built), n, acc))
                            evs.append({"tid": f"c{i}", "k": "cover", "spans": spans_out(o3, built), "n": n, "acc": acc,
                                        "out": o4, "res": list(cov) if o4 == "ret" else []})
                            i += 1
    res = core.validate_traces("Trace_Spans", evs, "X02", min_per_shard=200)
    rep.add_trace("span_builders", evs, res, sig=lambda e: (e["k"], e.get("n"), e.get("mc"), e.get("mn"), e.get("mx"), e.get("semi")))
    return rep.finish(rule=f"every parent span inside 0..{nmax} x min/max length in (None, 0, 1, 2, 3, 5, 9) for the three "
                           f"elementary builders; every site set of a protein of 1..{nmax} residues (quick: 43 per length) x "
                           "missed cleavages (0, 1, 2, 5) x length bounds x semi for build_enzymatic_spans, "
                           "build_semi_spans, build_spans, calculate_span_coverage; sites given unsorted and with repeats")


def replay(path):
    raise SystemExit("X02 has no replay")
