"""C09 driver: the parser is total. Verdicts: spec/Trace_Parser.tla.

The exhaustive enumeration of token strings runs the real parser on every string (16 processes); strings are grouped
into buckets by (enumeration shard, outcome) only to keep the trace small - every outcome class that occurred reaches
TLC with its count and witnesses, and TLC decides whether that outcome is allowed."""
from __future__ import annotations

import itertools
import json
import multiprocessing as mp
import os
import random
import sys
import warnings

from harness import core, anngen, project
from harness.project import call, exc_info

TOKENS = ["P", "K", "B", "[", "]", "(", ")", "{", "}", "<", ">", "?", "-", "+", "/", "^", "@", "#", "|", ":", ",", ".",
          "1", "2", "Oxidation", "\\", " "]



RULE_EXTRA = ("generated modification values (14 prefixes x 27 pieces, stray brackets in the labile slot) judged for 'silently counted as zero' / non-ValueError / rejected although meaningful; PSI-MOD entries without mass; wrong-case names after valid ones; isotope labels, adduct texts (incl. numbers) and global rules with and without a bracketed modification; conformance of the TLA+ parser machine with the real parser on every short token string and on seeded longer texts (divergences are evidence, never a verdict); the enumeration abandons a chunk after 8 watchdog hits.")

def outcome_of(pp, s, watchdog=1.0):
    o, v = call(pp.parse, s, watchdog=watchdog)
    info = exc_info(o, v)
    ser = "na"
    if o == "ret":
        o2, _ = call(lambda: pp.serialize(v), watchdog=watchdog)
        o3, _ = call(lambda: pp.serialize(v, True), watchdog=watchdog)
        ser = "ok" if o2 == "ret" and o3 == "ret" else (o2 if o2 != "ret" else o3)
    ov, vv = call(pp.is_sequence_valid, s, watchdog=watchdog)
    valid = "bool" if ov == "ret" and isinstance(vv, bool) else (ov if ov != "ret" else "notbool")
    return (info["cls"], info["isv"], ser, valid)


_HANGS = 0


def real_outcome(pp, s):
    """Outcome of the real parse() in the vocabulary of spec/ParserMachine.tla!Outcome."""
    from harness import project
    global _HANGS
    if _HANGS >= 5:      # a hanging parser is reported by the bucket events; do not wait for its watchdog again and again
        return {"cls": "reject", "chains": [], "links": []}
    o, v = call(pp.parse, s, watchdog=1.0)
    if o == "hang":
        _HANGS += 1
    if o != "ret":
        return {"cls": "reject", "chains": [], "links": []}
    if isinstance(v, pp.ProFormaAnnotation):
        return {"cls": "accept", "chains": [project.ann(v)], "links": []}
    return {"cls": "accept", "chains": [project.ann(a) for a in v.annotations], "links": [bool(c) for c in v.connections]}


def _work(args):
    first_tokens, length = args
    warnings.simplefilter("ignore")
    import peptacular as pp
    buckets = {}
    hangs = 0
    for head in first_tokens:
        for rest in itertools.product(TOKENS, repeat=length - len(head)):
            s = "".join(head + rest)
            k = outcome_of(pp, s)
            b = buckets.setdefault(k, [0, []])
            b[0] += 1
            if len(b[1]) < 3:
                b[1].append(s)
            if "hang" in k:
                hangs += 1
                if hangs >= 8:      # a hanging parser is a violation already; do not spend the budget on its watchdogs
                    return buckets
    return buckets


def exhaustive(max_len):
    jobs = []
    for n in range(0, max_len + 1):
        if n <= 2:
            jobs.append(([()], n))
        else:
            for a in TOKENS:
                for b in (TOKENS if n >= 5 else [None]):
                    jobs.append(([(a,) if b is None else (a, b)], n))
    total = {}
    with mp.Pool(16) as pool:
        for ji, res in enumerate(pool.imap_unordered(_work, jobs, chunksize=4)):
            for k, (cnt, wit) in res.items():
                t = total.setdefault(k, [0, []])
                t[0] += cnt
                if len(t[1]) < 6:
                    t[1].extend(wit[:2])
    return total


def bucket_events(tag, total):
    evs = []
    for i, (k, (cnt, wit)) in enumerate(sorted(total.items(), key=lambda kv: str(kv[0]))):
        evs.append({"tid": f"{tag}.{i}", "k": "bucket", "outcome": {"cls": k[0], "isv": k[1], "ser": k[2]}, "valid": k[3],
                    "count": cnt, "witness": wit[:6]})
    return evs


CORPUS = ["INVALID", "U:999999", "UNIMOD:Nope", "Formula:Xx2", "Glycan:Foo", "Obs:abc", "U:+1a", "M:00000000", "X:nope",
          "R:nope", "G:nope", "Nope|INFO:x", "INFO:only", "Formula:", "Glycan:", "Glycan:Hex2Foo", "MOD:xyz", "Oxidized", "unimod:",
          "", "Nope|", "|", "#g1|Nope",
          "Formula:C2:H4", "Obs:1.5:35", "Glycan:Hex:Hex", "Formula:[]", "Formula:C[]", "U:+1:5",
          "Oxidation", "U:35", "+15.995", "Formula:C2H4", "Glycan:Hex", "Obs:+1.5", "Oxidation|Nope", "Nope|Oxidation"]
SLOTS = ["internal", "nterm", "cterm", "unknown", "labile", "interval", "static", "static_nterm"]
# global isotope labels and charge adducts have their own value grammars
ISOTOPE_CORPUS = ["13C", "15N", "D", "T", "2H", "18O", "34S", "Foo", "13X", "99C", "C13"]
ADDUCT_CORPUS = ["+H+", "+2Na+,+H+", "+K+", "-H+", "+Ca2+", "+Cl-", "+e-", "+Foo+", "", "+2Xx+", "+Na+,+Qq+", "1", "2.5"]
# global rules: with and without a bracketed modification (without one the rule means nothing)
RULE_CORPUS = ["[Oxidation]@M", "[1]@P,E", "Bogus@P", "@P", "Oxidation@M", "[Oxidation]^2@N-term",
               # targets that are not residue letters (and mean something to a regular-expression engine)
               # a modification nobody can weigh, on a terminus or on a residue that is there
               "[Bogus]@C-term", "[Bogus]@N-term", "[Bogus]@M", "[Unimod:99999999]@C-Term", "[Bogus]@n-term,K", "[Oxidation][Bogus]@E",
               "[Formula:C]@(", "[Formula:C]@*", "[Oxidation]@+", "[1]@?", "[Formula:C]@.", "[1]@P|E", "[1]@^", "[1]@$", "[1]@\\"]


# generated modification values: prefix x 1..3 body pieces (balanced brackets everywhere; stray brackets only in the
# labile slot, whose braces do not count brackets).  Whether the string is syntactically valid is the parser's call
# (strict = False): the clauses about mass / composition are judged only when it parses.
PREFIXES = ["", "U:", "UNIMOD:", "M:", "MOD:", "R:", "X:", "G:", "Formula:", "Glycan:", "Obs:", "INFO:", "formula:", "glycan:"]
PIECES = ["C", "H2", "O-1", "Xx", "13", "[13C2]", "[13C]", "[C13]", "-", "+", "1", ".", "Hex", "HexNAc2", "Foo", "(", ")", " ",
          "c", "e", "1.5", "+15.99", "Oxidation", "35", "#g1", "^2", ":"]
STRAY = ["[", "]", "]C", "[C", "[]"]


def gen_value(rnd, slot):
    pieces = PIECES + (STRAY if slot == "labile" else ["[]"])
    return rnd.choice(PREFIXES) + "".join(rnd.choice(pieces) for _ in range(rnd.randint(0, 3)))


def rule_event(pp, tid, v):
    text = f"<{v}>PEMPTIDE"
    o, a = call(pp.parse, text)
    o2, r2 = call(pp.mass, text)
    o3, r3 = call(lambda: pp.comp(text, estimate_delta=True))
    return {"tid": tid, "k": "deferred_rule", "rule": "s:" + v, "text": text, "parse": exc_info(o, a),
            "mass": exc_info(o2, r2), "comp": exc_info(o3, r3),
            "massUnchanged": bool(o2 == "ret" and abs(r2 - pp.mass("PEMPTIDE")) < 1e-9),
            "compUnchanged": bool(o3 == "ret" and r3 == pp.comp("PEMPTIDE", estimate_delta=True))}


def deferred_event(pp, tid, value, slot, rnd, strict=True):
    n = rnd.randint(1, 5)
    A = anngen.empty(rnd.choice("ACDEFGHIKLMNPQRSTVWY") for _ in range(n))
    m = {"v": "s:" + value, "m": 1}
    if slot == "internal":
        A["internal"] = [{"i": rnd.randrange(n), "mods": [m]}]
    elif slot == "interval":
        A["intervals"] = [{"s": 0, "e": n, "amb": False, "mods": [m]}]
    elif slot == "static":
        A["static"] = [{"v": f"s:[{value}]@{A['seq'][0]}", "m": 1}]
    elif slot == "static_nterm":
        A["static"] = [{"v": f"s:[{value}]@N-Term", "m": 1}]
    else:
        A[slot] = [m]
    text = anngen.render(A)
    o, a = call(pp.parse, text, watchdog=2.0)
    ev = {"tid": tid, "k": "deferred", "v": "s:" + value, "slot": slot, "text": text, "parse": exc_info(o, a),
          "strict": strict}
    o2, r2 = call(pp.mass, text, watchdog=2.0)
    o3, r3 = call(pp.comp, text, watchdog=2.0)
    ev["mass"], ev["comp"] = exc_info(o2, r2), exc_info(o3, r3)
    # the same question again after other calls on the same TEXT (a text is immutable: the answer cannot change)
    project.poison(pp, text)
    o4, r4 = call(pp.mass, text, watchdog=2.0)
    ev["massAgain"] = exc_info(o4, r4)
    ev["massSame"] = bool(o2 == o4 and (o2 != "ret" or abs(r2 - r4) < 1e-9))
    # facts for the "silently counted as zero" clause: the unmodified peptide's mass / composition came back
    bare = "".join(A["seq"])
    ev["massUnchanged"] = bool(o2 == "ret" and abs(r2 - pp.mass(bare)) < 1e-9)
    ev["compUnchanged"] = bool(o3 == "ret" and dict(r3) == dict(pp.comp(bare)))
    # does the returned annotation hold the value as written (one modification, this text)?
    ev["held"] = bool(o == "ret" and value in {str(m.val) for m in _all_mods(a)})
    return ev


def _all_mods(a):
    out = []
    for name in ("labile_mods", "unknown_mods", "nterm_mods", "cterm_mods", "static_mods"):
        out += list(getattr(a, name, None) or [])
    for v in (getattr(a, "internal_mods", None) or {}).values():
        out += list(v)
    for iv in (getattr(a, "intervals", None) or []):
        out += list(iv.mods or [])
    return out


def mutate(rnd, s):
    toks = list(s)
    if not toks:
        return s
    r = rnd.random()
    i = rnd.randrange(len(toks))
    if r < 0.25:
        del toks[i]
    elif r < 0.5:
        toks.insert(i, rnd.choice(TOKENS))
    elif r < 0.75 and len(toks) > 1:
        j = rnd.randrange(len(toks))
        toks[i], toks[j] = toks[j], toks[i]
    else:
        toks.insert(i, toks[i])
    return "".join(toks)


def run(tier, seed, rep):
    warnings.simplefilter("ignore")
    import peptacular as pp
    rnd = random.Random(seed)
    thorough = tier == "thorough"
    max_len = 5 if thorough else 4
    # the deferred-validation corpus comes first: these calls must see a process in which little has been parsed yet
    # (whatever the library remembers between calls is then still small)
    evs = []
    j = 0
    # vocabulary entries that exist but carry neither a mass nor a composition (read from the bundled OBO files by
    # harness/obo.py, not through the library), and wrong-case spellings of valid names placed AFTER the valid ones
    from harness import obo
    nomass = []
    rows = [r_ for r_ in obo.psimod() if r_.get("mono") is None and r_.get("comp") is None and r_.get("avg") is None]
    rows = rows if thorough else rows[:3] + rnd.sample(rows, min(5, len(rows)))
    nomass = ["MOD:" + r_["id"] for r_ in rows] + ["XLMOD:00000"]
    wrongcase = [v.lower() if v.lower() != v else v.upper() for v in ("Oxidation", "U:Oxidation", "Formula:C2H4", "Glycan:Hex",
                                                                        "Phospho", "Carbamidomethyl")]
    for v in CORPUS + nomass + wrongcase:
        for slot in SLOTS:
            evs.append(deferred_event(pp, f"D{j}", v, slot, rnd))
            j += 1
    for i in range(20000 if thorough else 2500):
        slot = rnd.choice(SLOTS[:6])
        evs.append(deferred_event(pp, f"G{i}", gen_value(rnd, slot), slot, rnd, strict=False))
    total = exhaustive(max_len)
    nstrings = sum(v[0] for v in total.values())
    evs += bucket_events("X", total)
    # random strings up to 40 tokens and single-token mutations of valid strings
    buckets = {}
    for i in range(200000 if thorough else 20000):
        if i % 2:
            s = "".join(rnd.choice(TOKENS) for _ in range(rnd.randint(1, 40)))
        else:
            s = mutate(rnd, anngen.render(anngen.annotation(rnd, 1, 8), rnd.random() < 0.5))
        if sum(v[0] for kk, v in buckets.items() if "hang" in kk) >= 20:
            break
        k = outcome_of(pp, s)
        b = buckets.setdefault(k, [0, []])
        b[0] += 1
        if len(b[1]) < 6:
            b[1].append(s)
    evs += bucket_events("R", buckets)
    # conformance of the TLA+ parser machine with the real parser on every short token string (evidence, not a verdict:
    # C09 does not say which malformed strings are rejected, so a divergence is recorded, never reported as a violation)
    r = core.model_check("MC_Parser", "MC_Parser.cfg", workers=8)
    rep.add_mc("MC_Parser (parser machine: terminates, never reads past the end, accepted results are well formed)", r)
    mlen = 4 if thorough else 3
    strs = ["".join(t) for n in range(0, mlen + 1) for t in itertools.product(TOKENS, repeat=n)]
    # ... and on seeded longer texts: random token strings up to 12 tokens, valid spellings and their one-token mutations
    for i in range(20000 if thorough else 3000):
        r_ = i % 3
        if r_ == 0:
            strs.append("".join(rnd.choice(TOKENS) for _ in range(rnd.randint(5, 12))))
        else:
            t_ = anngen.render(anngen.annotation(rnd, 1, 6, density=0.3), rnd.random() < 0.5)
            strs.append(t_ if r_ == 1 else mutate(rnd, t_))
    mevs = []
    for i in range(0, len(strs), 500):
        chunk = strs[i:i + 500]
        mevs.append({"tid": f"mach{i}", "k": "machine", "strings": chunk, "outs": [real_outcome(pp, x) for x in chunk]})
    mres = core.validate_traces("Trace_Machine", mevs, "C09", min_per_shard=2)
    divergences = mres.get("outs", [])
    rep.add_trace("parser_machine_conformance", mevs, mres, traces=len(strs))
    for v in ISOTOPE_CORPUS:
        text = f"<{v}>PEPTIDE"
        o, a = call(pp.parse, text)
        o2, r2 = call(pp.mass, text)
        o3, r3 = call(pp.comp, text)
        evs.append({"tid": f"D{j}", "k": "deferred_label", "label": v, "text": text, "parse": exc_info(o, a),
                    "mass": exc_info(o2, r2), "comp": exc_info(o3, r3),
                    "unchanged": bool(o2 == "ret" and abs(r2 - pp.mass("PEPTIDE")) < 1e-9)})
        j += 1
    for v in ADDUCT_CORPUS:
        text = f"PEPTIDE/2[{v}]"
        o, a = call(pp.parse, text)
        o2, r2 = call(pp.mass, text)
        o3, r3 = call(pp.comp, text)
        evs.append({"tid": f"D{j}", "k": "deferred_adduct", "adduct": v, "text": text, "parse": exc_info(o, a),
                    "mass": exc_info(o2, r2), "comp": exc_info(o3, r3)})
        j += 1
    for v in RULE_CORPUS:
        evs.append(rule_event(pp, f"D{j}", v))
        j += 1
    res = core.validate_traces("Trace_Parser", evs, "C09")
    rep.add_trace("parser_totality", evs, res, traces=nstrings + sum(v[0] for v in buckets.values()) + j,
                  sig=lambda e: (e["k"], json.dumps(e.get("outcome")), e.get("valid"), e.get("v"), e.get("slot")))
    return rep.finish(rule=f"every string of up to {max_len} tokens over the 27-token notation alphabet ({nstrings} strings, "
                           "each parsed, serialised with and without plus, and passed to is_sequence_valid under a 1 s "
                           "watchdog), seeded random strings up to 40 tokens, single-token mutations of valid strings, and "
                           "the deferred-validation corpus x 6 modification slots; strings are bucketed by outcome, every "
                           "outcome class reaches TLC", exhaustive=True,
                      extra={"strings_parsed": nstrings + sum(v[0] for v in buckets.values()),
                             "parser_machine_strings": len(strs), "parser_machine_divergences": len(divergences),
                             "parser_machine_divergence_samples": [list(map(str, d)) for d in divergences[:10]]})


def replay(path):
    ev = json.load(open(path))["event"]
    import peptacular as pp
    warnings.simplefilter("ignore")
    if ev["k"] == "bucket":
        new = []
        for i, s in enumerate(ev["witness"]):
            k = outcome_of(pp, s)
            new.append({"tid": f"R.{i}", "k": "bucket", "outcome": {"cls": k[0], "isv": k[1], "ser": k[2]}, "valid": k[3],
                        "count": 1, "witness": [s]})
    elif ev["k"] == "deferred":
        new = [deferred_event(pp, "R.0", ev["v"][2:], ev["slot"], random.Random(0), strict=ev.get("strict", True))]
    elif ev["k"] == "deferred_rule":
        new = [rule_event(pp, "R.0", ev["rule"][2:])]
    else:
        new = [ev]
    res = core.validate_traces("Trace_Parser", new, "C09")
    rep = core.Report("C09", "quick", 0)
    rep.add_trace("replay", new, res)
    return rep.finish(rule="replay of the recorded witnesses")
