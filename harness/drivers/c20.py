"""C20 driver: modification dictionaries, copies, strip and equality. Verdicts: spec/Trace_Annotation.tla."""
from __future__ import annotations

import copy
import json
import random
import warnings

from harness import core, anngen, project
from harness.project import call

SLOTS = ["labile", "static", "isotope", "unknown", "nterm", "cterm", "adducts"]



RULE_EXTRA = ('add_mods on the same modified text before the dictionary round trip; equality after an in-place edit of a modification that already took part in a comparison; peptides decorated only by a charge / bare intervals; [x,x,y] versus [x,y,y].')


def touch_mods(x, depth=0):
    """Edit every modification object reachable from x in place (value and multiplier): x is an annotation, a dictionary
    or a list that the caller owns."""
    from peptacular.proforma.proforma_dataclasses import Mod, Interval
    if depth > 6 or x is None:
        return
    if isinstance(x, Mod):
        x.val, x.mult = "TOUCHED", x.mult + 5
    elif isinstance(x, Interval):
        touch_mods(x.mods, depth + 1)
    elif isinstance(x, dict):
        for v in x.values():
            touch_mods(v, depth + 1)
    elif isinstance(x, (list, tuple)):
        for v in x:
            touch_mods(v, depth + 1)
    elif hasattr(x, "__dict__") and type(x).__name__ == "ProFormaAnnotation":
        touch_mods(vars(x), depth + 1)

def _all_modlists(A):
    out = [(s, A[s]) for s in SLOTS if A[s]]
    out += [("internal", e["mods"]) for e in A["internal"]]
    out += [("interval", iv["mods"]) for iv in A["intervals"] if iv["mods"]]
    return out


def _other_value(rnd, v):
    """a value of a different abstract kind or numerically different (never int<->equal float)."""
    pool = ["i:7", "f:2.25", "s:Carbamyl", "s:Formula:C3H6", "i:-9", "s:Oxidation#g7"]
    while True:
        w = rnd.choice(pool)
        if w != v and not (v[0] in "if" and w[0] in "if" and float(v[2:]) == float(w[2:])):
            return w


def perturb(rnd, A):
    """One single-field change of A -> (what, B) or None.  Whether B equals A is decided by the spec, not here."""
    B = copy.deepcopy(A)
    lists = _all_modlists(B)
    choices = ["residue", "charge"]
    if lists:
        choices += ["value", "mult", "drop", "dup", "order"]
    if B["internal"]:
        choices += ["position"]
    if B["intervals"]:
        choices += ["ivbound", "ivamb"]
    what = rnd.choice(choices)
    n = len(B["seq"])
    if what == "residue":
        i = rnd.randrange(n)
        B["seq"][i] = rnd.choice([c for c in "ACDEFGHIK" if c != B["seq"][i]])
    elif what == "charge":
        B["charge"] = B["charge"] + rnd.choice([1, -1, 2]) if B["charge"] + 1 != 0 else 3
        if B["charge"] == 0:
            B["charge"] = 5
    elif what == "value":
        _, ml = rnd.choice(lists)
        m = rnd.choice(ml)
        m["v"] = _other_value(rnd, m["v"]) if _ not in ("static", "isotope", "adducts") else m["v"] + "x"
    elif what == "mult":
        _, ml = rnd.choice([x for x in lists])
        m = rnd.choice(ml)
        m["m"] = m["m"] + 1
    elif what == "drop":
        slot, ml = rnd.choice(lists)
        ml.pop(rnd.randrange(len(ml)))
        B["internal"] = [e for e in B["internal"] if e["mods"]]
    elif what == "dup":
        slot, ml = rnd.choice(lists)
        ml.append(copy.deepcopy(rnd.choice(ml)))
    elif what == "order":
        cands = [ml for _, ml in lists if len(ml) >= 2]
        if not cands:
            return None
        ml = rnd.choice(cands)
        ml.reverse()
    elif what == "position":
        e = rnd.choice(B["internal"])
        free = [i for i in range(n) if i not in {x["i"] for x in B["internal"]}]
        if not free:
            return None
        e["i"] = rnd.choice(free)
        B["internal"].sort(key=lambda x: x["i"])
    elif what == "ivbound":
        iv = rnd.choice(B["intervals"])
        if iv["e"] - iv["s"] >= 2:
            if rnd.random() < 0.5:
                iv["s"] += 1
            else:
                iv["e"] -= 1
        else:
            return None
    elif what == "ivamb":
        iv = rnd.choice(B["intervals"])
        iv["amb"] = not iv["amb"]
    return what, B


def events_for(pp, rnd, A, tag):
    from peptacular.proforma.proforma_dataclasses import Mod
    evs = []
    text = anngen.render(A)
    blank = anngen.empty("")

    def add(op, **kw):
        kw.update(op=op, tid=f"{tag}.{op}.{len(evs)}", k="c20", A=A)
        evs.append(kw)

    if len(text) % 2:
        # a string is immutable: adding something to the SAME text first must not matter for what follows
        call(lambda: pp.add_mods(text, {"nterm": [Mod("EDIT", 1)], 0: [Mod("EDIT", 1)]}))
    if len(text) % 3 == 0:
        # one modification dictionary used twice (the recorded answer is the second one)
        def twice():
            d = pp.get_mods(text)
            pp.add_mods(pp.strip_mods(text), d)
            return pp.add_mods(pp.strip_mods(text), d)
        o, r = call(twice)
    else:
        o, r = call(lambda: pp.add_mods(pp.strip_mods(text), pp.get_mods(text)))
    add("moddict", out=o, res=r if o == "ret" else "")
    a = anngen.build(pp, A)
    o, b = call(lambda: pp.create_annotation(**a.dict()))
    add("fromdict", out=o, res=project.ann(b) if o == "ret" else blank, eq=bool(o == "ret" and b == a and a == b))

    def edit(x):
        x.add_internal_mod(0, [Mod("EDIT", 1)], append=True)
        x.add_nterm_mods([Mod("EDIT", 1)], append=True)
        x.charge = 9
        if x.intervals:
            x.intervals[0].start = x.intervals[0].start  # touch
            if x.intervals[0].mods is not None:
                x.intervals[0].mods.append(Mod("EDIT", 1))
        if x.labile_mods:
            x.labile_mods.append(Mod("EDIT", 1))
        # ... and the modification objects the annotation already holds, field by field (a copy owns its own)
        touch_mods(x)
    a = anngen.build(pp, A)

    def h():
        d, md = a.dict(), a.mod_dict()
        touch_mods(d)
        touch_mods(md)
        return project.ann(a)
    o, r = call(h)
    add("dictedit", out=o, origAfter=r if o == "ret" else blank)
    a = anngen.build(pp, A)

    def f():
        c = a.copy()
        pc = project.ann(c)
        eq = bool(c == a and a == c)
        edit(c)
        after = project.ann(a)
        edited = project.ann(c)
        c2 = a.copy()
        edit(a)
        return pc, eq, after, edited, project.ann(c2)
    o, r = call(f)
    if o == "ret":
        add("copy", out=o, copy=r[0], eq=r[1], origAfter=r[2], editedCopy=r[3], copyAfter=r[4])
    else:
        add("copy", out=o, copy=blank, eq=False, origAfter=blank, editedCopy=blank, copyAfter=blank)
    a = anngen.build(pp, A)

    def g():
        s = a.strip()
        after = project.ann(a)
        b2 = anngen.build(pp, A)
        b2.strip(inplace=True)
        return project.ann(s), project.ann(b2), pp.strip_mods(text), after
    o, r = call(g)
    if o == "ret":
        add("strip", out=o, res=r[0], resIn=r[1], text=r[2], origAfter=r[3])
    else:
        add("strip", out=o, res=blank, resIn=blank, text="", origAfter=blank)
    # equality on perturbations
    for _ in range(12):
        pb = perturb(rnd, A)
        if pb is None:
            continue
        what, B = pb
        x, y = anngen.build(pp, A), anngen.build(pp, B)
        o, r = call(lambda: (bool(x == y), bool(y == x), bool(x == x)))
        add("eq", out=o, B=B, what=what, ab=r[0] if o == "ret" else False, ba=r[1] if o == "ret" else False,
            aa=r[2] if o == "ret" else False)
    # equality after an in-place edit of a modification that has already taken part in a comparison (hashing):
    # the edited object equals an independently built annotation with the same content
    slots = [sl for sl in ("nterm", "cterm", "unknown", "labile") if A[sl]] + (["interval"] if any(iv["mods"] for iv in A["intervals"]) else [])
    if slots:
        sl = rnd.choice(slots)
        B3 = copy.deepcopy(A)
        x3, y3 = anngen.build(pp, A), anngen.build(pp, A)

        def h():
            first = bool(x3 == y3)
            if sl == "interval":
                k_ = next(i_ for i_, iv in enumerate(A["intervals"]) if iv["mods"])
                x3.intervals[k_].mods[0].mult += 1
                B3["intervals"][k_]["mods"][0]["m"] += 1
            else:
                getattr(x3, sl + "_mods")[0].mult += 1
                B3[sl][0]["m"] += 1
            z3 = anngen.build(pp, B3)
            return first, bool(x3 == z3), bool(z3 == x3), bool(x3 == x3)
        o, r = call(h)
        evs.append({"op": "eq", "tid": f"{tag}.eqedit.{len(evs)}", "k": "c20", "A": B3, "out": o, "B": B3,
                    "what": "edited_in_place_" + sl, "ab": r[1] if o == "ret" else False, "ba": r[2] if o == "ret" else False,
                    "aa": r[3] if o == "ret" else False})
    # same length, same distinct values, different multiplicities at one position: [x, x, y] versus [x, y, y]
    slot = rnd.choice(["nterm", "cterm", "labile", "unknown", "internal"])
    x_, y_ = {"v": "s:Phospho", "m": 1}, {"v": "s:Acetyl", "m": 1}
    A2, B2 = copy.deepcopy(A), copy.deepcopy(A)
    if slot == "internal":
        A2["internal"] = [e for e in A2["internal"] if e["i"] != 0] + [{"i": 0, "mods": [x_, x_, y_]}]
        B2["internal"] = [e for e in B2["internal"] if e["i"] != 0] + [{"i": 0, "mods": [x_, y_, y_]}]
        A2["internal"].sort(key=lambda e: e["i"])
        B2["internal"].sort(key=lambda e: e["i"])
    else:
        A2[slot], B2[slot] = [x_, x_, y_], [x_, y_, y_]
    xo, yo = anngen.build(pp, A2), anngen.build(pp, B2)
    o, r = call(lambda: (bool(xo == yo), bool(yo == xo), bool(xo == xo)))
    evs.append({"op": "eq", "tid": f"{tag}.eqmult.{len(evs)}", "k": "c20", "A": A2, "out": o, "B": B2, "what": "multiplicity",
                "ab": r[0] if o == "ret" else False, "ba": r[1] if o == "ret" else False, "aa": r[2] if o == "ret" else False})
    # one position holding a whole number and the float of the same value, with different multipliers, listed in the two
    # possible orders: the order of modifications at one position does not matter (intervals included)
    slot = rnd.choice(["nterm", "cterm", "labile", "unknown", "internal", "interval", "interval"])
    n_ = rnd.choice([1, 7, 42])
    x_, y_ = {"v": f"i:{n_}", "m": 2}, {"v": f"f:{n_}.0", "m": 1}
    if rnd.random() < 0.5:
        # ... or one value twice with different multipliers ([a]^2[a] against [a][a]^2)
        v_ = rnd.choice(["s:Oxidation", "s:a", "f:-18.01", f"i:{n_}"])
        x_, y_ = {"v": v_, "m": rnd.choice([2, 3])}, {"v": v_, "m": 1}
    A4, B4 = copy.deepcopy(A), copy.deepcopy(A)
    if slot == "internal":
        for C_, ms in ((A4, [x_, y_]), (B4, [y_, x_])):
            C_["internal"] = sorted([e for e in C_["internal"] if e["i"] != 0] + [{"i": 0, "mods": ms}], key=lambda e: e["i"])
    elif slot == "interval":
        for C_, ms in ((A4, [x_, y_]), (B4, [y_, x_])):
            if C_["intervals"]:
                C_["intervals"][0]["mods"] = ms
            else:
                C_["intervals"] = [{"s": 0, "e": 1, "amb": False, "mods": ms}]
    else:
        A4[slot], B4[slot] = [x_, y_], [y_, x_]
    xo, yo = anngen.build(pp, A4), anngen.build(pp, B4)
    o, r = call(lambda: (bool(xo == yo), bool(yo == xo), bool(xo == xo)))
    evs.append({"op": "eq", "tid": f"{tag}.eqnum.{len(evs)}", "k": "c20", "A": A4, "out": o, "B": B4, "what": "order_of_two_modifications_with_one_value",
                "ab": r[0] if o == "ret" else False, "ba": r[1] if o == "ret" else False, "aa": r[2] if o == "ret" else False})
    return evs


def _job(args):
    import peptacular as pp
    warnings.simplefilter("ignore")
    return events_for(pp, random.Random(args[0]), args[1], args[2])


def run(tier, seed, rep):
    warnings.simplefilter("ignore")
    import peptacular as pp
    rnd = random.Random(seed)
    thorough = tier == "thorough"
    r = core.model_check("MC_Equal", "MC_Equal.cfg", workers=4, xmx="6g")
    rep.add_mc("MC_Equal (Equal is an equivalence that separates every single-field perturbation)", r)
    jobs = []
    for i in range(6000 if thorough else 600):
        A = anngen.annotation(rnd, 1, 12, density=0.4, p={"interval": 0.4, "charge": 0.4, "labile": 0.3,
                                                           "unknown": 0.3, "static": 0.3, "isotope": 0.3})
        if i % 10 == 9:
            # peptides whose only decorations are written without any bracket: a charge, bare ambiguity intervals
            A = anngen.empty(A["seq"])
            n_ = len(A["seq"])
            if rnd.random() < 0.6:
                A["charge"] = rnd.choice([1, 2, 3, -1])
            if rnd.random() < 0.7 or A["charge"] == 0:
                s_ = rnd.randrange(n_)
                A["intervals"] = [{"s": s_, "e": rnd.randint(s_ + 1, n_), "amb": rnd.random() < 0.5, "mods": []}]
        jobs.append((rnd.randrange(10 ** 9), A, f"a{i}"))
    evs = [e for lst in core.pmap(_job, jobs) for e in lst]
    res = core.validate_traces("Trace_Annotation", evs, "C20")
    rep.add_trace("dictionaries_copies_equality", evs, res,
                  sig=lambda e: (e["op"], e.get("what"), tuple(sorted(k for k in SLOTS + ["internal", "intervals"] if e["A"][k])),
                                 e["A"]["charge"] != 0))
    return rep.finish(rule="seeded annotations (length 1..12, all modification kinds, several mods per position, "
                           "multipliers) x {add_mods(strip_mods, get_mods), create_annotation(**dict()), copy + edits on "
                           "both sides, strip (copy / inplace / string), == on ~12 single-field perturbations each}. "
                           "distinct = (operation, perturbation kind, feature set)")


def replay(path):
    ev = json.load(open(path))["event"]
    res = core.validate_traces("Trace_Annotation", [ev], "C20")
    rep = core.Report("C20", "quick", 0)
    rep.add_trace("replay (recorded event re-validated)", [ev], res)
    return rep.finish(rule="replay of one recorded event")
