-------------------------------- MODULE Spans --------------------------------
(* Machine layer under Digest.tla (not named by a listed property on its own; *)
(* C06 reaches it through digest()): the span builders of spans.py written as *)
(* the loops they run, each yielding a SEQUENCE of spans in the order the     *)
(* generator produces them.  MC_Spans checks, for every small instance, that   *)
(* the machine refines the reference (Digest!Spans as a set, no span twice);   *)
(* Trace_Spans compares the real generators with the machine item by item.     *)
(* A span is <<s, e, v>>, NoBound (-1) stands for None.                        *)
EXTENDS Digest, SequencesExt, FiniteSetsExt, TLC

Min2(a, b) == IF a < b THEN a ELSE b
Max2(a, b) == IF a > b THEN a ELSE b
(* Python range(a, b) and range(a, b, -1) as sequences *)
Up(a, b)   == [ k \in 1..Max2(0, b - a) |-> a + k - 1 ]
Down(a, b) == [ k \in 1..Max2(0, a - b) |-> a - k + 1 ]
Flat(ss)   == FoldLeft(LAMBDA acc, x : acc \o x, <<>>, ss)
Keep(s, P(_)) == SelectSeq(s, P)
OrOne(mn)  == IF mn = NoBound THEN 1 ELSE mn

(* build_non_enzymatic_spans: for i in range(s, e): for j in range(i + mn, min(e + 1, i + mx + 1)) *)
NonEnzymaticSeq(sp, mn, mx) ==
    LET s == sp[1]  e == sp[2]
        mn1 == OrOne(mn)
        cap == e - s - 1
        mx1 == Min2(IF mx = NoBound THEN cap ELSE mx, cap) IN
    Flat([ k \in 1..Max2(0, e - s) |->
             LET i == s + k - 1 IN [ q \in 1..Len(Up(i + mn1, Min2(e + 1, i + mx1 + 1))) |-> <<i, i + mn1 + q - 1, 0>> ] ])

(* build_left_semi_spans: new_end = min(s + mx, e - 1); for i in range(new_end, s - 1, -1) if i - s >= mn *)
LeftSemiSeq(sp, mn, mx) ==
    LET s == sp[1]  e == sp[2]  v == sp[3]
        mn1 == OrOne(mn)
        mx1 == IF mx = NoBound THEN e - s ELSE mx
        ends == Keep(Down(Min2(s + mx1, e - 1), s - 1), LAMBDA i : i - s >= mn1) IN
    [ k \in 1..Len(ends) |-> <<s, ends[k], v>> ]

(* build_right_semi_spans: new_start = max(s + 1, e - mx); for i in range(new_start, e + 1) if e - i >= mn *)
RightSemiSeq(sp, mn, mx) ==
    LET s == sp[1]  e == sp[2]  v == sp[3]
        mn1 == OrOne(mn)
        mx1 == IF mx = NoBound THEN e - s ELSE mx
        starts == Keep(Up(Max2(s + 1, e - mx1), e + 1), LAMBDA i : e - i >= mn1) IN
    [ k \in 1..Len(starts) |-> <<starts[k], e, v>> ]

(* build_enzymatic_spans: sites = sorted(set(S) | {0, n}); for i, a: for j, b in enumerate(sites[i+1 : i+mc+2]) *)
SortedSites(S) == SetToSortSeq(S, <)
EnzymaticSeq(n, S, mc, mn, mx) ==
    LET mn1 == OrOne(mn)
        mx1 == IF mx = NoBound THEN n ELSE mx
        st == SortedSites(S \cup {0, n}) IN
    Flat([ i \in 1..Len(st) |->
             LET window == SubSeq(st, i + 1, Min2(Len(st), i + mc + 1))
                 js == Keep([ j \in 1..Len(window) |-> j ], LAMBDA j : mn1 <= window[j] - st[i] /\ window[j] - st[i] <= mx1) IN
             [ q \in 1..Len(js) |-> <<st[i], window[js[q]], js[q] - 1>> ] ])

(* sorted(spans, key=(x[0], -x[2])) then groupby x[0]   (side = 1: left builder; side = 2: key (x[1], -x[2])) *)
KeyLess(side, a, b) == a[side] < b[side] \/ (a[side] = b[side] /\ a[3] > b[3])
Groups(spans, side) ==
    LET keys == SortedSites({ spans[k][side] : k \in 1..Len(spans) }) IN
    [ g \in 1..Len(keys) |-> SortSeq(Keep(spans, LAMBDA x : x[side] = keys[g]), LAMBDA a, b : KeyLess(side, a, b)) ]

SpanLen(sp) == sp[2] - sp[1]
(* the loop over one group with its `break`: longest first, each span yields the semi-spans longer than the next one *)
RECURSIVE GroupWalk(_, _, _, _, _)
GroupWalk(side, group, i, mn1, mx) ==
    IF i > Len(group) THEN <<>>
    ELSE LET sp == group[i]
             len == SpanLen(sp) IN
         IF (side = 1 /\ len <= mn1) \/ (side = 2 /\ len < mn1) THEN <<>>            \* break
         ELSE LET newMax == IF mx = NoBound THEN len - 1 ELSE Min2(mx, len - 1)
                  newMin == IF i = Len(group) THEN mn1 ELSE Max2(mn1, SpanLen(group[i + 1]) + 1)
                  piece == IF side = 1 THEN LeftSemiSeq(sp, newMin, newMax) ELSE RightSemiSeq(sp, newMin, newMax) IN
              piece \o GroupWalk(side, group, i + 1, mn1, mx)

GroupedSemiSeq(side, spans, mn, mx) ==
    LET gs == Groups(spans, side) IN Flat([ g \in 1..Len(gs) |-> GroupWalk(side, gs[g], 1, OrOne(mn), mx) ])
SemiSeq(spans, mn, mx) == GroupedSemiSeq(1, spans, mn, mx) \o GroupedSemiSeq(2, spans, mn, mx)

(* build_spans *)
BuildSpansSeq(n, S, mc, mn, mx, semi) ==
    LET mn1 == OrOne(mn)
        mx1 == IF mx = NoBound THEN n ELSE mx IN
    IF Cardinality(S) = n + 1 THEN NonEnzymaticSeq(<<0, n, 0>>, mn1, mx1)
    ELSE LET spans == EnzymaticSeq(n, S, mc, mn1, IF semi THEN NoBound ELSE mx1) IN
         IF semi THEN Keep(spans, LAMBDA sp : mx1 >= SpanLen(sp) /\ SpanLen(sp) >= mn1) \o SemiSeq(spans, mn1, mx1)
         ELSE spans

(* calculate_span_coverage (spans inside 0..n) *)
CoverageSeq(spans, n, accumulate) ==
    [ p \in 1..n |-> LET c == Cardinality({ k \in 1..Len(spans) : spans[k][1] <= p - 1 /\ p - 1 < spans[k][2] }) IN
                     IF accumulate THEN c ELSE IF c > 0 THEN 1 ELSE 0 ]

NoDuplicates(s) == \A i, j \in 1..Len(s) : i # j => s[i] # s[j]
SetOf(s) == { s[k] : k \in 1..Len(s) }
==============================================================================
