--------------------------- MODULE Trace_ProForma ----------------------------
(* Trace validation for C01 (text <-> annotation are inverses).               *)
(* Events are recorded calls of the real parse / serialize / constructor on   *)
(* texts that are spellings of a known abstract annotation A.                 *)
EXTENDS TraceBase, ProFormaText
VARIABLE l

Pre(p, S) == { p \o x : x \in S }

(* k = "rt": one chain.                                                       *)
(*   A, plus, zplus, text = the spelling under test                           *)
(*   out / parsed     : outcome and projection of parse(text)                 *)
(*   ser0, ser1       : serialize(parse(text), include_plus = F / T)          *)
(*   re0, re1         : projection of parse(ser0), parse(ser1)                *)
(*   eq               : parse(ser) == parse(text) and the converse, for both  *)
(*   built0, built1   : serialize of the constructor-built annotation         *)
RtFails(ev) ==
    LET A == ev.A IN
    IF ev.text # WriteV(A, ev.plus, ev.zplus) THEN {"MACHINERY_text_not_spec_text"}
    ELSE IF ev.out # "ret" THEN {"parse_raised"}
    ELSE Pre("parsed_", Diff(ev.parsed, A))
         \cup (IF ev.ser0 # Write(A, FALSE) THEN {"serialize_noplus"} ELSE {})
         \cup (IF ev.ser1 # Write(A, TRUE) THEN {"serialize_plus"} ELSE {})
         \cup Pre("reparse0_", Diff(ev.re0, A))
         \cup Pre("reparse1_", Diff(ev.re1, A))
         \cup (IF ~ev.eq THEN {"equality_after_roundtrip"} ELSE {})
         \cup Pre("parse_again_after_editing_first_result_", Diff(ev.again, A))
         \cup (IF ev.built0 # Write(A, FALSE) THEN {"built_serialize_noplus"} ELSE {})
         \cup (IF ev.built1 # Write(A, TRUE) THEN {"built_serialize_plus"} ELSE {})

(* k = "multi": 1-3 chains joined by "+" / "//".                              *)
(*   chains, links, text; parsedChains, parsedLinks; ser0/ser1; reout0/1 +    *)
(*   re0/re1 (chains of the re-parsed serialisation), relinks0/1              *)
ChainsDiff(got, want) ==
    IF Len(got) # Len(want) THEN {"chain_count"}
    ELSE UNION { Pre("chain" \o ToString(k) \o "_", Diff(got[k], want[k])) : k \in 1..Len(want) }

MultiFails(ev) ==
    IF ev.text # WriteMulti(ev.chains, ev.links, ev.plus, ev.zplus) THEN {"MACHINERY_text_not_spec_text"}
    ELSE IF ev.out # "ret" THEN {"parse_raised"}
    ELSE Pre("parsed_", ChainsDiff(ev.parsedChains, ev.chains))
         \cup (IF ev.parsedLinks # ev.links THEN {"parsed_links"} ELSE {})
         \cup (IF ev.ser0 # WriteMulti(ev.chains, ev.links, FALSE, FALSE) THEN {"serialize_noplus"} ELSE {})
         \cup (IF ev.ser1 # WriteMulti(ev.chains, ev.links, TRUE, FALSE) THEN {"serialize_plus"} ELSE {})
         \cup (IF ev.reout0 # "ret" THEN {"reparse0_raised"}
               ELSE Pre("reparse0_", ChainsDiff(ev.re0, ev.chains))
                    \cup (IF ev.relinks0 # ev.links THEN {"reparse0_links"} ELSE {}))
         \cup (IF ev.reout1 # "ret" THEN {"reparse1_raised"}
               ELSE Pre("reparse1_", ChainsDiff(ev.re1, ev.chains))
                    \cup (IF ev.relinks1 # ev.links THEN {"reparse1_links"} ELSE {}))

(* Named deviation: the multi-chain serializer writes a cross-link as two backslashes, which the parser *)
(* rejects.  Exactly: everything about parsing is right; both serialisations equal the spec text with   *)
(* every "//" replaced by two backslashes; re-parsing them raises the format error.                      *)
WriteMultiBackslash(chains, links, plus) ==
    Join([ k \in 1..Len(chains) |->
             Write(chains[k], plus) \o (IF k < Len(chains) THEN (IF links[k] THEN "\\\\" ELSE "+") ELSE "") ])

Dev_C01_CrosslinkBackslashes(ev) ==
    /\ ev.k = "multi" /\ ev.out = "ret"
    /\ \E k \in 1..Len(ev.links) : ev.links[k]
    /\ ChainsDiff(ev.parsedChains, ev.chains) = {} /\ ev.parsedLinks = ev.links
    /\ ev.ser0 = WriteMultiBackslash(ev.chains, ev.links, FALSE)
    /\ ev.ser1 = WriteMultiBackslash(ev.chains, ev.links, TRUE)
    /\ ev.reout0 = "exc:ProFormaFormatError" /\ ev.reout1 = "exc:ProFormaFormatError"

Fails(ev) == CASE ev.k = "rt" -> RtFails(ev)
               [] ev.k = "multi" -> MultiFails(ev)
               [] OTHER -> {"unknown_event_kind"}

Dev(ev) == IF "C01_CrosslinkBackslashes" \in Devs /\ ev.k = "multi" /\ Dev_C01_CrosslinkBackslashes(ev)
           THEN "C01_CrosslinkBackslashes" ELSE ""

Init == l = 1 /\ ResetCounters
Next == /\ l <= NEvents
        /\ LET f == Fails(Events[l]) IN Record(Events[l], MkVerdict(f, IF f = {} THEN "" ELSE Dev(Events[l])))
        /\ l' = l + 1
Spec == Init /\ [][Next]_l
Post == PrintT(Totals) /\ TLCGet(1) + TLCGet(2) + TLCGet(3) = NEvents
==============================================================================
