SPECIFICATION Spec
CONSTANTS
  MaxLen = 4
  MaxMods = 3
INVARIANT Refines
INVARIANT NoFormTwice
INVARIANT StaticIdempotent
CHECK_DEADLOCK FALSE
