--------------------------------- MODULE Fix ---------------------------------
(* Exact fixed-point decimals for TLC's 32-bit integers.                      *)
(* A number is <<ip, fp>> with value ip + fp * 10^-9, 0 <= fp < 10^9,         *)
(* ip any integer (floor), so every component and every intermediate sum      *)
(* stays below 2^31.                                                          *)
EXTENDS Integers, Sequences

Giga == 1000000000

FZero == <<0, 0>>
FInt(k) == <<k, 0>>

FNorm(ip, fp) == IF fp >= Giga THEN <<ip + 1, fp - Giga>>
                 ELSE IF fp < 0 THEN <<ip - 1, fp + Giga>> ELSE <<ip, fp>>

FAdd(a, b) == FNorm(a[1] + b[1], a[2] + b[2])
FNeg(a)    == IF a[2] = 0 THEN <<0 - a[1], 0>> ELSE <<0 - a[1] - 1, Giga - a[2]>>
FSub(a, b) == FAdd(a, FNeg(b))

FLess(a, b) == a[1] < b[1] \/ (a[1] = b[1] /\ a[2] < b[2])
FLeq(a, b)  == a = b \/ FLess(a, b)
FAbs(a)     == IF a[1] < 0 THEN FNeg(a) ELSE a
FMax(a, b)  == IF FLess(a, b) THEN b ELSE a

(* |a - b| <= tol *)
FWithin(a, b, tol) == FLeq(FAbs(FSub(a, b)), tol)

(* a * k for an integer k (binary method, additions only, so nothing overflows) *)
RECURSIVE FMulNat(_, _)
FMulNat(a, k) == IF k = 0 THEN FZero
                 ELSE IF k = 1 THEN a
                 ELSE LET h == FMulNat(a, k \div 2) IN
                      IF k % 2 = 0 THEN FAdd(h, h) ELSE FAdd(FAdd(h, h), a)
FMulInt(a, k) == IF k >= 0 THEN FMulNat(a, k) ELSE FNeg(FMulNat(a, 0 - k))

FSum(s) == LET F[i \in 0..Len(s)] == IF i = 0 THEN FZero ELSE FAdd(F[i - 1], s[i]) IN F[Len(s)]

(* tolerances *)
Nano(k)  == <<0, k>>                \* k * 1e-9
Micro(k) == <<0, k * 1000>>         \* k * 1e-6  (k < 10^6)
==============================================================================
