------------------------------- MODULE Foreign -------------------------------
(* Foreign notations and containers around the ProForma core (not named by   *)
(* any of the listed properties; part of the growing specification):          *)
(*   - the three sequence converters (IP2, DIA-NN, Casanovo -> ProForma),     *)
(*   - the FASTA reader.                                                       *)
(* Each is written as the MACHINE the library runs (one action per character, *)
(* per regex pass, per line) and, separately, as a WRITER of the foreign       *)
(* notation from an abstract annotation.  MC_Foreign checks the law            *)
(*      ParserMachine( Convert( WriteForeign(A) ) )  accepts exactly  A        *)
(* on a bounded annotation space, and emits every short text with the          *)
(* machine's output; Trace_Foreign compares the real functions with it.        *)
EXTENDS ParserMachine

Rest(t, i) == SubSeq(t, i, Len(t))
Letters == Uppers \cup Lowers
NextIndex(t, i, c) == LET S == { j \in i..Len(t) : At(t, j) = c } IN IF S = {} THEN 0 ELSE CHOOSE j \in S : \A k \in S : j <= k
FoldChars(f(_, _), init, t) == FoldLeft(LAMBDA acc, k : f(acc, At(t, k)), init, [ k \in 1..Len(t) |-> k ])

(* ------------------------------ Casanovo ------------------------------- *)
(* one action per character: a sign opens "[", the next letter closes it ("]" or "]-" for a leading one)        *)
CasInit == [out |-> "", inMod |-> FALSE, isNterm |-> FALSE]
CasStep(s, c) ==
    IF c \in {"+", "-"} THEN [out |-> s.out \o "[" \o c, inMod |-> TRUE, isNterm |-> s.out = ""]
    ELSE IF s.inMod /\ c \in Letters
    THEN [out |-> s.out \o "]" \o (IF s.isNterm THEN "-" ELSE "") \o c, inMod |-> FALSE, isNterm |-> FALSE]
    ELSE [ s EXCEPT !.out = @ \o c ]
ConvertCasanovo(t) == LET s == FoldChars(CasStep, CasInit, t) IN IF s.inMod THEN s.out \o "]" ELSE s.out

(* -------------------------------- IP2 ---------------------------------- *)
(* pass 1: "X.body.X" flanks (X a capital or "-") are removed                                                     *)
Flank == Uppers \cup {"-"}
Ip2Unflank(t) == IF Len(t) >= 4 /\ At(t, 1) \in Flank /\ At(t, 2) = "." /\ At(t, Len(t) - 1) = "." /\ At(t, Len(t)) \in Flank
                 THEN SubSeq(t, 3, Len(t) - 2) ELSE t
(* pass 2: every "(" x ")" with x a non-empty run without ")" becomes "[" x "]" (leftmost, non-overlapping)     *)
RECURSIVE Ip2Parens(_, _)
Ip2Parens(t, i) ==
    IF i > Len(t) THEN ""
    ELSE IF At(t, i) = "("
    THEN LET j == NextIndex(t, i + 1, ")") IN
         IF j > i + 1 THEN "[" \o SubSeq(t, i + 1, j - 1) \o "]" \o Ip2Parens(t, j + 1)
         ELSE "(" \o Ip2Parens(t, i + 1)
    ELSE At(t, i) \o Ip2Parens(t, i + 1)
(* pass 3: a leading "[digits]" is an N-terminal modification                                                     *)
Ip2Nterm(t) == LET d == SkipWhile(t, 2, Digits) IN
               IF At(t, 1) = "[" /\ d > 2 /\ At(t, d) = "]" THEN SubSeq(t, 1, d) \o "-" \o Rest(t, d + 1) ELSE t
(* pass 4: "][" becomes "]-["                                                                                     *)
RECURSIVE DashBetween(_, _)
DashBetween(t, i) == IF i > Len(t) THEN ""
                     ELSE IF At(t, i) = "]" /\ At(t, i + 1) = "[" THEN "]-" \o DashBetween(t, i + 1)
                     ELSE At(t, i) \o DashBetween(t, i + 1)
ConvertIp2(t) == DashBetween(Ip2Nterm(Ip2Parens(Ip2Unflank(t), 1)), 1)

(* ------------------------------- DIA-NN -------------------------------- *)
(* a leading "_" is dropped and a bracket group right after it becomes N-terminal; a trailing "_" is dropped,     *)
(* otherwise a trailing "_[x]" becomes "-[x]"                                                                     *)
LeadingGroupEnd(t) == IF At(t, 1) = "[" THEN LET j == NextIndex(t, 2, "]") IN IF j > 2 THEN j ELSE 0 ELSE 0
(* the LAST "_[x]" with x a non-empty run without "]" that ends the text: the regex search finds the leftmost "_["  *)
(* from which "[^]]+]$" can match, i.e. the leftmost "_[" such that no "]" occurs before the final character        *)
TrailingGroupStart(t) ==
    LET n == Len(t)
        S == { i \in 1..(n - 3) : At(t, i) = "_" /\ At(t, i + 1) = "[" /\ At(t, n) = "]"
                                  /\ \A k \in (i + 2)..(n - 1) : At(t, k) # "]" }
    IN IF n >= 4 /\ S # {} THEN CHOOSE i \in S : \A k \in S : i <= k ELSE 0
ConvertDiann(t) ==
    LET a == IF At(t, 1) = "_"
             THEN LET r == Rest(t, 2)  e == LeadingGroupEnd(r) IN
                  IF e > 0 THEN SubSeq(r, 1, e) \o "-" \o Rest(r, e + 1) ELSE r
             ELSE t
        g == TrailingGroupStart(a) IN
    IF Len(a) > 0 /\ At(a, Len(a)) = "_" THEN SubSeq(a, 1, Len(a) - 1)
    ELSE IF g > 0 THEN SubSeq(a, 1, g - 1) \o "-" \o Rest(a, g + 1)
    ELSE a

(* ------------------- writers of the foreign notations ------------------ *)
(* value text of a modification: "i:1" -> "1", "s:phospho" -> "phospho"                                            *)
FVal(m) == SubSeq(m.v, 3, Len(m.v))
Signed(m) == IF At(FVal(m), 1) = "-" THEN FVal(m) ELSE "+" \o FVal(m)
Group(ms, open, close) == Join([ k \in 1..Len(ms) |-> open \o FVal(ms[k]) \o close ])
WriteIp2(A, flanked) ==
    LET body == Group(A.nterm, "(", ")")
                \o Join([ p \in 1..NRes(A) |-> A.seq[p] \o Group(ModsAt(A, p - 1), "(", ")") ])
                \o Group(A.cterm, "(", ")") IN
    IF flanked THEN "K." \o body \o ".-" ELSE body
WriteDiann(A) == "_" \o Group(A.nterm, "[", "]")
                 \o Join([ p \in 1..NRes(A) |-> A.seq[p] \o Group(ModsAt(A, p - 1), "[", "]") ])
                 \o "_" \o Group(A.cterm, "[", "]")
WriteCasanovo(A) == Join([ k \in 1..Len(A.nterm) |-> Signed(A.nterm[k]) ])
                    \o Join([ p \in 1..NRes(A) |-> A.seq[p] \o Join([ k \in 1..Len(ModsAt(A, p - 1)) |-> Signed(ModsAt(A, p - 1)[k]) ]) ])

(* what the converted text must denote *)
Denotes(text, A) == LET o == Outcome(text) IN o.cls = "accept" /\ o.chains = <<A>> /\ o.links = <<>>

(* -------------------------------- FASTA -------------------------------- *)
(* the reader as a machine over the lines of the text: state = pending header (or none), its sequence so far,     *)
(* the entries already emitted                                                                                      *)
White == {" ", "\t"}
RECURSIVE WLStrip(_)
WLStrip(t) == IF Len(t) > 0 /\ At(t, 1) \in White THEN WLStrip(Rest(t, 2)) ELSE t
RECURSIVE WRStrip(_)
WRStrip(t) == IF Len(t) > 0 /\ At(t, Len(t)) \in White THEN WRStrip(SubSeq(t, 1, Len(t) - 1)) ELSE t
WStrip(t) == WRStrip(WLStrip(t))
UpperChar(c) == LET lo == "abcdefghijklmnopqrstuvwxyz"  up == "ABCDEFGHIJKLMNOPQRSTUVWXYZ" IN
                IF c \in Lowers THEN LET k == CHOOSE k \in 1..26 : At(lo, k) = c IN At(up, k) ELSE c
Upper(t) == FoldChars(LAMBDA acc, c : acc \o UpperChar(c), "", t)

FastaInit == [has |-> FALSE, header |-> "", seq |-> "", out |-> <<>>]
Flush(s) == IF s.has THEN Append(s.out, <<s.header, s.seq>>) ELSE s.out
FastaHeaderLine(s, ln) == [has |-> TRUE, header |-> WStrip(Rest(ln, 2)), seq |-> "", out |-> Flush(s)]
FastaSeqLine(s, ln) == [ s EXCEPT !.seq = @ \o Upper(ln) ]
FastaStep(s, line) == LET ln == WStrip(line) IN IF At(ln, 1) = ">" THEN FastaHeaderLine(s, ln) ELSE FastaSeqLine(s, ln)
FastaRun(lines) == Flush(FoldLeft(FastaStep, FastaInit, lines))

(* what a FASTA text denotes: one entry per header line; its sequence is every following line up to the next       *)
(* header, stripped, upper-cased, concatenated; lines before the first header belong to no entry                    *)
IsHeader(line) == At(WStrip(line), 1) = ">"
FastaDenotes(lines) ==
    LET H == { i \in 1..Len(lines) : IsHeader(lines[i]) }
        hs == SetToSortSeq(H, <)
        EndOf(k) == IF k < Len(hs) THEN hs[k + 1] - 1 ELSE Len(lines) IN
    [ k \in 1..Len(hs) |-> <<WStrip(Rest(WStrip(lines[hs[k]]), 2)),
                             Join([ j \in 1..(EndOf(k) - hs[k]) |-> Upper(WStrip(lines[hs[k] + j])) ])>> ]
==============================================================================
