-------------------------- MODULE Trace_DigestMods ---------------------------
(* Trace validation for C07: digested peptides keep their modifications,      *)
(* their mass and their place.                                                *)
EXTENDS TraceBase, Digest, ProFormaText, Mass
VARIABLE l

Pre(p, S) == { p \o x : x \in S }
RuleOf(j) == IF j.name # "" THEN Protease(j.name)
             ELSE IF j.style = "zero" THEN ZeroRule(SeqToSet(j.before), SeqToSet(j.beforeNot), SeqToSet(j.after), SeqToSet(j.afterNot), SeqToSet(j.notAfter))
             ELSE IF j.style = "consuming" THEN [style |-> "consuming", lit |-> [ i \in 1..Len(j.lit) |-> SeqToSet(j.lit[i]) ]]
             ELSE IF j.style = "mixed" THEN [style |-> "mixed", lit |-> <<SeqToSet(j.lit[1])>>, after |-> SeqToSet(j.after)]
             ELSE [style |-> j.style]

PeptideFields == {"seq", "internal", "nterm", "cterm", "static", "isotope", "intervals"}

(* k = "peptides": one digest call; ev.items = <<[span, text, ann, reparseEq, found]>> from return types               *)
(* 'str-span' and 'annotation-span' zipped; ev.spansOnly / ev.strsOnly / ev.annsOnly = the three plain return types     *)
PeptidesFails(ev) ==
    LET A == ev.A  n == NRes(A) IN
    IF ev.text # Write(A, FALSE) THEN {"MACHINERY_text_not_spec_text"}
    ELSE IF ev.out # "ret" THEN {"raised_" \o ev.out}
    ELSE
    UNION { LET it == ev.items[q]  s == it.span[1]  e == it.span[2] IN
            IF ~(0 <= s /\ s < e /\ e <= n) THEN {"span_out_of_range"}
            ELSE LET want == Slice(A, s, e) IN
                 Pre("peptide_", Diff(it.ann, want) \cap PeptideFields)
                 \cup (IF it.text # Write(it.ann, FALSE) THEN {"string_and_annotation_differ"} ELSE {})
                 \cup (IF ~it.reparseEq THEN {"string_does_not_reparse_to_annotation"} ELSE {})
                 \cup (IF it.searched /\ s \notin SeqToSet(it.found) THEN {"peptide_not_found_at_its_offset"} ELSE {})
          : q \in 1..Len(ev.items) }
    \cup (IF ev.spansOnly # [ q \in 1..Len(ev.items) |-> ev.items[q].span ] THEN {"span_return_type_differs"} ELSE {})
    \cup (IF ev.strsOnly # [ q \in 1..Len(ev.items) |-> ev.items[q].text ] THEN {"str_return_type_differs"} ELSE {})
    \cup (IF ev.annTexts # [ q \in 1..Len(ev.items) |-> ev.items[q].text ] THEN {"annotation_return_type_differs"} ELSE {})
    \cup (IF ev.strSpanTexts # [ q \in 1..Len(ev.items) |-> ev.items[q].text ] THEN {"str_span_return_type_differs"} ELSE {})
    \cup (IF ~ev.independent THEN {"editing_a_returned_peptide_changed_the_protein_or_other_peptides"} ELSE {})
    (* the spans are those the rule defines (C06's definition), so that "the same peptides" is anchored *)
    \cup (IF ev.checkSpans /\ { ev.items[q].span : q \in 1..Len(ev.items) }
                              # DigestSpans(A.seq, <<RuleOf(ev.rule)>>, ev.mc, ev.semi, NoBound, NoBound)
          THEN {"spans_are_not_the_rules_spans"} ELSE {})
    (* conservation: zero-missed-cleavage peptides of a complete digest sum to the protein + one water per cut *)
    \cup (IF ev.conserve /\ Len(ev.items) >= 1
          THEN LET total == FSum([ q \in 1..Len(ev.items) |-> ev.items[q].mass ])
                   water == CompMass(ApplyLabels(Water, Labels(A)), TRUE)
                   want == FAdd(ev.protMass, FMulInt(water, Len(ev.items) - 1)) IN
               IF FWithin(total, want, Micro(1 + Len(ev.items))) THEN {} ELSE {"masses_do_not_sum_to_protein_plus_water_per_cut"}
          ELSE {})

Fails(ev) == CASE ev.k = "peptides" -> PeptidesFails(ev)
               [] OTHER -> {"unknown_event_kind"}

(* Named deviation C07_InheritedByEveryPeptide: labile and unknown-position modifications (which have no position) *)
(* are copied onto every digested peptide, so the peptide masses over-count them (k-1) times.                      *)
Dev_C07_InheritedByEveryPeptide(ev) ==
    /\ ev.k = "peptides" /\ ev.out = "ret" /\ ev.conserve
    /\ PeptidesFails(ev) = {"masses_do_not_sum_to_protein_plus_water_per_cut"}
    /\ (ev.A.labile # <<>> \/ ev.A.unknown # <<>>)
    /\ LET A == ev.A
           extra == SemMass(SemAdd(SemSum(A.labile), SemSum(A.unknown)), TRUE)
           total == FSum([ q \in 1..Len(ev.items) |-> ev.items[q].mass ])
           water == CompMass(ApplyLabels(Water, Labels(A)), TRUE)
           want == FAdd(FAdd(ev.protMass, FMulInt(water, Len(ev.items) - 1)), FMulInt(extra, Len(ev.items) - 1))
           (* `extra` is weighed with the specification's atomic masses, the library weighs named entries and glycans   *)
           (* with its tabulated masses (6 decimals): up to 5e-7 Da per tabulated unit and copy                          *)
           inh == A.labile \o A.unknown
           units == FoldLeft(LAMBDA acc, m : acc + m.m * (1 + Sem(m.v).sugars), 0, inh) IN
       FWithin(total, want, FAdd(Micro(1 + Len(ev.items)), FMulInt(Nano(500), units * (Len(ev.items) - 1))))
Dev(ev) == IF "C07_InheritedByEveryPeptide" \in Devs /\ Dev_C07_InheritedByEveryPeptide(ev) THEN "C07_InheritedByEveryPeptide" ELSE ""
Init == l = 1 /\ ResetCounters
Next == /\ l <= NEvents
        /\ LET f == Fails(Events[l]) IN Record(Events[l], MkVerdict(f, IF f = {} THEN "" ELSE Dev(Events[l])))
        /\ l' = l + 1
Spec == Init /\ [][Next]_l
Post == PrintT(Totals) /\ TLCGet(1) + TLCGet(2) + TLCGet(3) = NEvents
==============================================================================
