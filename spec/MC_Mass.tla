------------------------------- MODULE MC_Mass -------------------------------
(* Stage A for the mass family: laws that keep the reference mass honest.     *)
EXTENDS Mass, TLC
VARIABLES A, z, mono
V == << Mod("i:1", 1), Mod("s:Oxidation", 2), Mod("s:Formula:[13C2]H4", 1), Mod("f:-0.984016", 3), Mod("s:Glycan:HexNAc2Hex", 1) >>
Seqs == { <<"P">>, <<"M", "K">>, <<"C", "M", "X">> }
ML == { <<>>, <<V[1]>>, <<V[2]>>, <<V[3], V[4]>>, <<V[5]>> }
(* two picking steps so that TLC's workers share the evaluation of the laws *)
VARIABLE phase
Init == /\ A \in { EmptyAnn(s) : s \in Seqs } /\ z = 0 /\ mono \in BOOLEAN /\ phase = 0
Pick1 == /\ phase = 0 /\ phase' = 1 /\ z' \in -2..3 /\ UNCHANGED mono
         /\ A' \in { [ A EXCEPT !.static = st, !.labile = lb ] :
                       st \in { <<>>, << Mod("s:[Oxidation]@M", 1) >>, << Mod("s:[+15.995]@N-Term,C", 1) >> },
                       lb \in {<<>>, <<V[2]>>} }
Pick2 == /\ phase = 1 /\ phase' = 2 /\ UNCHANGED <<z, mono>>
         /\ A' \in { [ A EXCEPT !.nterm = nt,
                                !.internal = InternalFrom([ i \in 0..(Len(A.seq) - 1) |-> IF i = 0 THEN r0 ELSE <<>> ]) ] :
                       nt \in ML, r0 \in ML }
Next == Pick1 \/ Pick2
Spec == Init /\ [][Next]_<<A, z, mono, phase>>

M(X, zz) == PrecursorMass(X, zz, "", 0, FZero, mono, FALSE)
(* charging adds exactly z protons *)
ChargeLaw == FSub(M(A, z), M(A, 0)) = FMulInt(Proton, z)
(* moving a modification from the N-terminus to a residue does not change the mass *)
SlotInvariance ==
    LET B == [ A EXCEPT !.nterm = <<>>,
                        !.internal = InternalFrom([ i \in 0..(NRes(A) - 1) |-> IF i = 0 THEN ModsAt(A, 0) \o A.nterm ELSE ModsAt(A, i) ]) ]
    IN  M(A, z) = M(B, z)
(* multipliers are linear *)
Linear == LET D == [ A EXCEPT !.nterm = [ k \in 1..Len(A.nterm) |-> [ A.nterm[k] EXCEPT !.m = 2 * @ ] ] ]
              E == [ A EXCEPT !.nterm = <<>> ] IN
          FSub(M(D, 0), M(E, 0)) = FMulInt(FSub(M(A, 0), M(E, 0)), 2)
(* labile modifications count for the precursor only *)
LabileOnlyPrecursor == FSub(SemMass(NeutralSem(A, TRUE, FALSE), mono), SemMass(NeutralSem(A, FALSE, FALSE), mono))
                         = SemMass(SemSum(A.labile), mono)
(* a static rule equals the explicit per-residue form *)
StaticEqualsExplicit ==
    LET X == CondenseStatic(A, StaticRules(A)) IN M(X, z) = M(A, z)
(* concatenation: M(AB) = M(A) + M(B) - water (for unmodified halves) *)
ConcatLaw == LET P == EmptyAnn(A.seq)  Q == EmptyAnn(A.seq \o A.seq) IN
             FSub(FAdd(M(P, 0), M(P, 0)), CompMass(Water, mono)) = M(Q, 0)
==============================================================================
