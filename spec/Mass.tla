-------------------------------- MODULE Mass ---------------------------------
(* Reference layer for the mass family (C02, C03, C05, C12, C18):             *)
(* the mass of a peptide ion as the sum of its physical parts.                *)
EXTENDS Mods, Annotation

(* ---------------- static rules "<[mod][mod]^n@T1,T2>" ------------------ *)
RECURSIVE SplitOn(_, _)
SplitOn(t, c) == LET b == IndexOf(t, c) IN IF b = 0 THEN <<t>> ELSE <<Before(t, b)>> \o SplitOn(After(t, b), c)

(* matching bracket of the "[" at position i (nested brackets allowed) *)
RECURSIVE CloseOf(_, _, _)
CloseOf(t, i, depth) == IF i > Len(t) THEN 0
                        ELSE IF At(t, i) = "[" THEN CloseOf(t, i + 1, depth + 1)
                        ELSE IF At(t, i) = "]" THEN (IF depth = 1 THEN i ELSE CloseOf(t, i + 1, depth - 1))
                        ELSE CloseOf(t, i + 1, depth)

TagValue(txt) == IF IsDecimalText(txt)
                 THEN (IF IndexOf(txt, ".") = 0 THEN "i:" ELSE "f:") \o (IF At(txt, 1) = "+" THEN After(txt, 1) ELSE txt)
                 ELSE "s:" \o txt

(* "[a][b]^2" -> sequence of Mod *)
RECURSIVE BracketMods(_, _)
BracketMods(t, i) ==
    IF i > Len(t) \/ At(t, i) # "[" THEN <<>>
    ELSE LET c == CloseOf(t, i + 1, 1) IN
         IF c = 0 THEN <<>>
         ELSE LET hasMult == At(t, c + 1) = "^"
                  m1 == IF hasMult THEN SkipWhile(t, c + 2, Digits) ELSE c + 1
                  mult == IF hasMult /\ m1 > c + 2 THEN DigitsVal(t, c + 2, m1 - 1, 0) ELSE 1 IN
              << Mod(TagValue(SubSeq(t, i + 1, c - 1)), mult) >> \o BracketMods(t, m1)

(* the terminal targets are written "N-term" / "C-term" in the ProForma 2.0 text and "N-Term" / "C-Term" in the     *)
(* library's documentation: one target, whatever the case                                                            *)
NormTarget(t) == IF Lower(t) = "n-term" THEN "N-Term" ELSE IF Lower(t) = "c-term" THEN "C-Term" ELSE t
StaticRule(v) ==   \* v = tagged value "s:[..]@A,B"
    LET body == SubSeq(v, 3, Len(v))
        at == IndexOf(body, "@") IN
    [mods |-> BracketMods(Before(body, at), 1),
     targets |-> LET ts == SplitOn(After(body, at), ",") IN [ k \in 1..Len(ts) |-> NormTarget(ts[k]) ]]
StaticRules(A) == [ k \in 1..Len(A.static) |-> StaticRule(A.static[k].v) ]

CountIn(seq, aa) == Cardinality({ p \in 1..Len(seq) : seq[p] = aa })
TargetCount(seq, tgt) == IF tgt \in {"N-Term", "C-Term"} THEN 1 ELSE CountIn(seq, tgt)

StaticSem(A) ==
    LET rules == StaticRules(A) IN
    FoldLeft(LAMBDA acc, r :
               FoldLeft(LAMBDA acc2, tgt : SemAdd(acc2, SemScale(SemSum(r.mods), TargetCount(A.seq, tgt))), acc, r.targets),
             SemZero, rules)

(* --------------------------- isotope labels --------------------------- *)
LabelElement(lab) == LET rest == SubSeq(lab, SkipWhile(lab, 1, Digits), Len(lab)) IN
                     IF rest \in {"D", "T"} THEN "H" ELSE rest
ApplyLabel(c, lab) ==
    LET el == LabelElement(lab) IN
    IF el \notin DOMAIN c \/ el = lab THEN c
    ELSE Clean([ s \in (DOMAIN c \ {el}) \cup {lab} |->
                   IF s = lab THEN Get(c, lab) + c[el] ELSE c[s] ])
ApplyLabels(c, labs) == FoldLeft(LAMBDA acc, lab : ApplyLabel(acc, lab), c, labs)
Labels(A) == [ k \in 1..Len(A.isotope) |-> SubSeq(A.isotope[k].v, 3, Len(A.isotope[k].v)) ]

(* --------------------------- charge carriers -------------------------- *)
(* adduct text "+2Na+,+H+": sign count Symbol chargecount? chargesign ; "+e-" is an electron          *)
Adduct(t) ==
    LET neg == At(t, 1) = "-"
        s == IF At(t, 1) \in {"+", "-"} THEN 2 ELSE 1
        d == SkipWhile(t, s, Digits)
        n == IF d = s THEN 1 ELSE DigitsVal(t, s, d - 1, 0)
        e == SkipWhile(t, d, Uppers \cup Lowers)
        sym == SubSeq(t, d, e - 1)
        q1 == SkipWhile(t, e, Digits)
        qn == IF q1 = e THEN 1 ELSE DigitsVal(t, e, q1 - 1, 0)
        q == IF At(t, q1) = "-" THEN 0 - qn ELSE qn
        cnt == IF neg THEN 0 - n ELSE n IN
    IF sym = "e" THEN CScale(Cmp(<<"e", 1>>), cnt)
    ELSE CScale(CAdd(Cmp(<<sym, 1>>), Cmp(<<"e", 0 - q>>)), cnt)
AdductsComp(t) == CSum(LET parts == SplitOn(t, ",") IN [ k \in 1..Len(parts) |-> Adduct(parts[k]) ])

(* what the recorded finding C02_AdductElectronCount adds: the implementation removes the q electrons of an    *)
(* adduct ion X^q once per term "nX^q" instead of once per ion, i.e. it is (n-1)*q electron masses too heavy     *)
AdductTermExcessElectrons(t) ==
    LET neg == At(t, 1) = "-"
        s == IF At(t, 1) \in {"+", "-"} THEN 2 ELSE 1
        d == SkipWhile(t, s, Digits)
        n == IF d = s THEN 1 ELSE DigitsVal(t, s, d - 1, 0)
        e == SkipWhile(t, d, Uppers \cup Lowers)
        sym == SubSeq(t, d, e - 1)
        q1 == SkipWhile(t, e, Digits)
        qn == IF q1 = e THEN 1 ELSE DigitsVal(t, e, q1 - 1, 0)
        q == IF At(t, q1) = "-" THEN 0 - qn ELSE qn
        cnt == IF neg THEN 0 - n ELSE n IN
    IF sym = "e" THEN 0 ELSE (cnt - 1) * q
AdductsExcessElectrons(t) ==
    IF t = "" \/ t = "+H+" THEN 0
    ELSE FoldLeft(LAMBDA acc, part : acc + AdductTermExcessElectrons(part), 0, SplitOn(t, ","))

(* adducts = "" : z protons *)
CarrierComp(z, adducts) == IF adducts = "" THEN Cmp(<<"p", z>>) ELSE AdductsComp(adducts)

(* ------------------------------ the peptide --------------------------- *)
IntervalModsSem(A) == FoldLeft(LAMBDA acc, iv : SemAdd(acc, SemSum(iv.mods)), SemZero, A.intervals)
InternalModsSem(A) == FoldLeft(LAMBDA acc, e : SemAdd(acc, SemSum(e.mods)), SemZero, A.internal)

ModsSem(A, withLabile) ==
    SemAdd(SemAdd(SemAdd(SemSum(A.nterm), SemSum(A.cterm)), SemAdd(InternalModsSem(A), IntervalModsSem(A))),
           SemAdd(SemAdd(SemSum(A.unknown), StaticSem(A)), IF withLabile THEN SemSum(A.labile) ELSE SemZero))

(* neutral peptide: residues + water + every modification; labels applied to residues and termini,   *)
(* and to the modifications only when asked                                                           *)
NeutralSem(A, withLabile, labelMods) ==
    LET base == ApplyLabels(CAdd(ResiduesComp(A.seq), Water), Labels(A))
        ms == ModsSem(A, withLabile)
        mcomp == IF labelMods THEN ApplyLabels(ms.comp, Labels(A)) ELSE ms.comp IN
    [ok |-> ms.ok, comp |-> CAdd(base, mcomp), delta |-> ms.delta, sugars |-> ms.sugars]


(* precursor ion: neutral + carriers + isotope neutrons + loss *)
PrecursorMass(A, z, adducts, iso, loss, mono, labelMods) ==
    LET s == NeutralSem(A, TRUE, labelMods) IN
    FAdd(FAdd(SemMass(s, mono), CompMass(CarrierComp(z, adducts), mono)),
         FAdd(FMulInt(Neutron, iso), loss))

AllResolvable(A, mono) ==
    LET s == NeutralSem(A, TRUE, TRUE) IN s.ok /\ Resolvable(s.comp, mono) /\ \A p \in 1..Len(A.seq) : A.seq[p] \in MassLetters
==============================================================================
