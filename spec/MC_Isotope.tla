------------------------------ MODULE MC_Isotope -----------------------------
(* Stage A for C14: the limb arithmetic used to multiply a mass by an         *)
(* abundance is exact on dyadic / decimal test points, and the average mass   *)
(* of an element equals the abundance-weighted mean of its isotopes (the      *)
(* independent table is self-consistent).                                     *)
EXTENDS Chem, TLC
VARIABLE i
Init == i \in 1..4
Next == UNCHANGED i
Spec == Init /\ [][Next]_i
MTimesA(m, a) == FAdd(FMulInt(m, a.c0), FAdd(FDivE4(FMulInt(m, a.c1)), FDivE4(FDivE4(FMulInt(m, a.c2)))))
Half == [c0 |-> 0, c1 |-> 5000, c2 |-> 0]
HalfLaw == MTimesA(<<12, 0>>, Half) = <<6, 0>> /\ MTimesA(<<13, 3354835>>, Half) = <<6, 501677417>>
(* carbon: 0.9893 * 12 + 0.0107 * 13.00335483507 = 12.0107359 *)
CarbonMean == FWithin(FAdd(MTimesA(MonoMass("C"), [c0 |-> 0, c1 |-> 9893, c2 |-> 0]), MTimesA(MonoMass("13C"), [c0 |-> 0, c1 |-> 107, c2 |-> 0])),
                      AvgMass("C"), Nano(100))
NitrogenMean == FWithin(FAdd(MTimesA(MonoMass("N"), [c0 |-> 0, c1 |-> 9963, c2 |-> 6000]), MTimesA(MonoMass("15N"), [c0 |-> 0, c1 |-> 36, c2 |-> 4000])),
                        AvgMass("N"), Nano(100))
==============================================================================
