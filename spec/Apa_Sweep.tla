------------------------------ MODULE Apa_Sweep ------------------------------
(* Unbounded-value safety of the two-pointer sweep (MC_Sweep) with Apalache:   *)
(* IndInv is inductive for lists of up to MaxTheo / MaxObs entries holding     *)
(* integers of ANY size and any tolerance >= 0 (TLC's MC_Sweep.cfg explores a  *)
(* grid of 0..4).  Two queries:                                                *)
(*   apalache-mc check --init=IndInit --inv=IndInv --length=1                  *)
(*   apalache-mc check --init=ApaInit --inv=IndInv --length=0                  *)
(* and IndInv => Refines by its third conjunct.                                *)
EXTENDS Sweep, Apalache

MaxTheo == 3
MaxObs == 4

TypeOK ==
    /\ Len(theo) <= MaxTheo /\ Len(obs) <= MaxObs /\ Sorted(theo) /\ Sorted(obs) /\ tol >= 0
    /\ pc \in {"next", "lo", "hi"}
    /\ i >= 1 /\ i <= Len(theo) + 1 /\ Len(out) = i - 1
    /\ lo >= 0 /\ lo <= Len(obs)
    /\ (pc \in {"lo", "hi"} => i <= Len(theo))

(* everything below the shared lower pointer is too light for the current (hence every later) theoretical value *)
LoBelow == \A j \in DOMAIN obs : (j <= lo /\ i <= Len(theo)) => obs[j] < theo[i] - tol
HiState == pc = "hi" => /\ lo < Len(obs) /\ obs[lo + 1] >= theo[i] - tol
                        /\ hi >= lo /\ hi <= Len(obs)
                        /\ \A j \in DOMAIN obs : (lo + 1 <= j /\ j <= hi) => obs[j] <= theo[i] + tol

IndInv == TypeOK /\ LoBelow /\ Refines /\ HiState

(* every initial state of the machine: any two sorted lists, any tolerance >= 0 *)
ApaInit ==
    /\ theo = Gen(3) /\ obs = Gen(4) /\ tol = Gen(1) /\ Sorted(theo) /\ Sorted(obs) /\ tol >= 0
    /\ i = 1 /\ lo = 0 /\ hi = 0 /\ pc = "next" /\ out = <<>>

IndInit ==
    /\ theo = Gen(3) /\ obs = Gen(4) /\ out = Gen(3)
    /\ tol = Gen(1) /\ i = Gen(1) /\ lo = Gen(1) /\ hi = Gen(1)
    /\ pc \in {"next", "lo", "hi"}
    /\ IndInv
(* vacuity probes: each must be VIOLATED from IndInit (the inductive hypothesis is satisfiable in interesting states) *)
ProbeNeverHi == pc # "hi"
ProbeNeverTwoWindows == ~(Len(out) >= 2 /\ out[2] # {} /\ pc = "hi" /\ hi > lo + 1)
==============================================================================
