------------------------------ MODULE MC_Formula -----------------------------
(* Stage A for C15: over a hazard symbol set (C / Ce / Cl / Co, particles,    *)
(* isotopes, D / T) the reference grammar parses the canonical text of a      *)
(* composition back to it, and parsing is additive over concatenation.        *)
EXTENDS Chem, TLC
VARIABLES a, b
Syms == {"C", "Ce", "Cl", "H", "He", "e", "p", "n", "D", "13C", "2H", "N", "Na"}
Counts == {-2000000, -12500, -10000, 10000, 20000, 5000, 120001, 5000000}
Small == { [ s \in S |-> c ] : S \in { X \in SUBSET Syms : Cardinality(X) = 1 }, c \in Counts }
Init == a \in Small /\ b \in Small
Next == UNCHANGED <<a, b>>
Spec == Init /\ [][Next]_<<a, b>>

(* canonical text of a count (E4) and of a one-symbol composition *)
Digit(d) == SubSeq("0123456789", d + 1, d + 1)
RECURSIVE NatText(_)
NatText(k) == IF k < 10 THEN Digit(k) ELSE NatText(k \div 10) \o Digit(k % 10)
Pad4(k) == Digit((k \div 1000) % 10) \o Digit((k \div 100) % 10) \o Digit((k \div 10) % 10) \o Digit(k % 10)
CountText(c) == LET m == IF c < 0 THEN 0 - c ELSE c IN
                (IF c < 0 THEN "-" ELSE "") \o NatText(m \div E4) \o (IF m % E4 = 0 THEN "" ELSE "." \o Pad4(m % E4))
SymText(s, c) == IF IsIsotopeSym(s) THEN "[" \o s \o CountText(c) \o "]" ELSE s \o CountText(c)
TextOf(comp) == LET s == CHOOSE x \in DOMAIN comp : TRUE IN SymText(s, comp[s])

RoundTrip == ParseFormula(TextOf(a)) = <<TRUE, a>>
Additive == ParseFormula(TextOf(a) \o TextOf(b)) = <<TRUE, CAdd(a, b)>>
CountTexts == \A c \in Counts : IsCountText(CountText(c)) /\ CountE4(CountText(c)) = c
==============================================================================
