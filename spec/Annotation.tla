----------------------------- MODULE Annotation ------------------------------
(* The abstract annotation: what a ProForma 2.0 string denotes.               *)
(*   seq        sequence of one-letter strings (the residues)                 *)
(*   labile, static, isotope, unknown, nterm, cterm, adducts                  *)
(*              sequences of modifications [v |-> tagged value, m |-> mult]   *)
(*              value tags: "i:<int text>", "f:<float text>", "s:<string>"    *)
(*   internal   sequence of [i |-> 0-based residue index, mods |-> seq],      *)
(*              sorted by i, every mods non-empty                             *)
(*   intervals  sequence of [s, e, amb, mods] (0-based, end exclusive),       *)
(*              sorted by s                                                   *)
(*   charge     integer, 0 = no charge                                        *)
(* "Absent" and "empty" are the same abstract value.                          *)
EXTENDS Integers, Sequences, FiniteSets, SequencesExt, TLC

Mod(v, m) == [v |-> v, m |-> m]

EmptyAnn(seq) == [seq |-> seq, labile |-> <<>>, static |-> <<>>, isotope |-> <<>>, unknown |-> <<>>,
                  nterm |-> <<>>, cterm |-> <<>>, internal |-> <<>>, intervals |-> <<>>,
                  charge |-> 0, adducts |-> <<>>]

NRes(A) == Len(A.seq)

SeqSet(s) == { s[i] : i \in 1..Len(s) }
RawBag(s) == [ x \in SeqSet(s) |-> Cardinality({ i \in 1..Len(s) : s[i] = x }) ]

(* numerically equal shifts are the same modification: "f:1.0" and "i:1" denote the same value *)
NormV(v) == IF SubSeq(v, 1, 2) = "f:" /\ Len(v) >= 5 /\ SubSeq(v, Len(v) - 1, Len(v)) = ".0"
            THEN "i:" \o SubSeq(v, 3, Len(v) - 2) ELSE v
Bag(s) == RawBag(s)
(* bag of a sequence of modifications, values normalised *)
MBag(mods) == RawBag([ k \in 1..Len(mods) |-> [ mods[k] EXCEPT !.v = NormV(@) ] ])

ModsAt(A, i) == IF \E k \in 1..Len(A.internal) : A.internal[k].i = i
                THEN (CHOOSE e \in SeqSet(A.internal) : e.i = i).mods ELSE <<>>

ModifiedIdx(A) == { A.internal[k].i : k \in 1..Len(A.internal) }

(* internal mods as a function residue index -> bag of mods (only modified residues) *)
InternalBags(A) == [ i \in ModifiedIdx(A) |-> MBag(ModsAt(A, i)) ]

IntervalKey(iv) == [s |-> iv.s, e |-> iv.e, amb |-> iv.amb, mods |-> MBag(iv.mods)]

(* equality of annotations: order-insensitive within one position, sensitive to everything else *)
SlotNames == {"labile", "static", "isotope", "unknown", "nterm", "cterm", "adducts"}
Equal(A, B) ==
    /\ A.seq = B.seq
    /\ \A f \in SlotNames : MBag(A[f]) = MBag(B[f])
    /\ InternalBags(A) = InternalBags(B)
    /\ Bag([ k \in 1..Len(A.intervals) |-> IntervalKey(A.intervals[k]) ])
         = Bag([ k \in 1..Len(B.intervals) |-> IntervalKey(B.intervals[k]) ])
    /\ A.charge = B.charge

(* names of the fields on which A and B differ (for diagnostics) *)
Diff(A, B) ==
    (IF A.seq # B.seq THEN {"seq"} ELSE {})
    \cup { f \in SlotNames : MBag(A[f]) # MBag(B[f]) }
    \cup (IF InternalBags(A) # InternalBags(B) THEN {"internal"} ELSE {})
    \cup (IF Bag([ k \in 1..Len(A.intervals) |-> IntervalKey(A.intervals[k]) ])
             # Bag([ k \in 1..Len(B.intervals) |-> IntervalKey(B.intervals[k]) ]) THEN {"intervals"} ELSE {})
    \cup (IF A.charge # B.charge THEN {"charge"} ELSE {})

WellFormed(A) ==
    /\ \A k \in 1..Len(A.internal) : A.internal[k].i \in 0..(NRes(A) - 1) /\ Len(A.internal[k].mods) > 0
    /\ \A k \in 1..(Len(A.internal) - 1) : A.internal[k].i < A.internal[k + 1].i
    /\ \A k \in 1..Len(A.intervals) : 0 <= A.intervals[k].s /\ A.intervals[k].s < A.intervals[k].e
                                      /\ A.intervals[k].e <= NRes(A)
    /\ \A k \in 1..(Len(A.intervals) - 1) : A.intervals[k].e <= A.intervals[k + 1].s

(* ---------------------------------------------------------------------- *)
(* sequences of internal entries built from a function index -> mods       *)
IdxLess(a, b) == a < b
InternalFrom(f) == LET idx == SetToSortSeq({ i \in DOMAIN f : Len(f[i]) > 0 }, IdxLess)
                   IN  [ k \in 1..Len(idx) |-> [i |-> idx[k], mods |-> f[idx[k]]] ]

(* residues s..e-1 (0-based, end exclusive) *)
Slice(A, s, e) ==
    LET n == NRes(A) IN
    [ A EXCEPT
        !.seq = SubSeq(A.seq, s + 1, e),
        !.internal = InternalFrom([ i \in { j - s : j \in { q \in ModifiedIdx(A) : s <= q /\ q < e } } |-> ModsAt(A, i + s) ]),
        !.intervals = LET keep == SelectSeq(A.intervals, LAMBDA iv : iv.s >= s /\ iv.e <= e)
                      IN  [ k \in 1..Len(keep) |-> [ keep[k] EXCEPT !.s = keep[k].s - s, !.e = keep[k].e - s ] ],
        !.nterm = IF s = 0 THEN A.nterm ELSE <<>>,
        !.cterm = IF e = n THEN A.cterm ELSE <<>> ]

(* image of A under a permutation of residue positions: new position p holds old residue perm[p+1] (0-based values) *)
PermuteResidues(A, perm) ==
    LET n == NRes(A)
        inv == [ old \in 0..(n - 1) |-> CHOOSE p \in 0..(n - 1) : perm[p + 1] = old ] IN
    [ A EXCEPT
        !.seq = [ p \in 1..n |-> A.seq[perm[p] + 1] ],
        !.internal = InternalFrom([ p \in { inv[i] : i \in ModifiedIdx(A) } |-> ModsAt(A, perm[p + 1]) ]) ]

ReversePerm(n) == [ p \in 1..n |-> n - p ]
ShiftPerm(n, k) == [ p \in 1..n |-> ((p - 1) + k) % n ]

ReverseAnn(A, swap) ==
    LET n == NRes(A)
        R == PermuteResidues(A, ReversePerm(n))
        ivs == [ k \in 1..Len(A.intervals) |->
                   [ A.intervals[Len(A.intervals) + 1 - k] EXCEPT
                        !.s = n - A.intervals[Len(A.intervals) + 1 - k].e,
                        !.e = n - A.intervals[Len(A.intervals) + 1 - k].s ] ] IN
    [ R EXCEPT !.intervals = ivs,
               !.nterm = IF swap THEN A.cterm ELSE A.nterm,
               !.cterm = IF swap THEN A.nterm ELSE A.cterm ]

ShiftAnn(A, k) == IF NRes(A) = 0 THEN A ELSE PermuteResidues(A, ShiftPerm(NRes(A), k % NRes(A)))

(* the bag of (residue, bag of its mods): what every reordering must preserve *)
ResidueBag(A) == Bag([ p \in 1..NRes(A) |-> <<A.seq[p], MBag(ModsAt(A, p - 1))>> ])

(* B is some permutation of A's residues with their mods, all non-residue slots untouched *)
IsResiduePermutation(A, B) ==
    /\ ResidueBag(A) = ResidueBag(B)
    /\ \A f \in SlotNames : MBag(A[f]) = MBag(B[f])
    /\ A.charge = B.charge

(* one-residue pieces; labile mods only on the first *)
Piece(A, p) == [ Slice(A, p, p + 1) EXCEPT !.labile = IF p = 0 THEN A.labile ELSE <<>> ]

Concat(A, B) ==
    [ A EXCEPT !.seq = A.seq \o B.seq,
               !.internal = A.internal \o [ k \in 1..Len(B.internal) |-> [ B.internal[k] EXCEPT !.i = @ + NRes(A) ] ],
               !.intervals = A.intervals \o [ k \in 1..Len(B.intervals) |->
                                [ B.intervals[k] EXCEPT !.s = @ + NRes(A), !.e = @ + NRes(A) ] ],
               !.cterm = B.cterm ]

Strip(A) == EmptyAnn(A.seq)

(* condense the static rules into explicit per-residue / per-terminus modifications *)
(* a static rule is given in resolved form: [mods |-> seq of Mod, targets |-> seq of strings]     *)
CondenseStatic(A, rules) ==
    LET n == NRes(A)
        ModsFor(t) == LET hit == SelectSeq(rules, LAMBDA r : t \in SeqSet(r.targets))
                      IN  FoldLeft(LAMBDA acc, r : acc \o r.mods, <<>>, hit) IN
    [ A EXCEPT !.static = <<>>,
               !.nterm = A.nterm \o ModsFor("N-Term"),
               !.cterm = A.cterm \o ModsFor("C-Term"),
               !.internal = InternalFrom([ i \in 0..(n - 1) |-> ModsAt(A, i) \o ModsFor(A.seq[i + 1]) ]) ]
==============================================================================
