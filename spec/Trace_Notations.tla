--------------------------- MODULE Trace_Notations ---------------------------
(* Conformance of the real readers of the small notations with Notations.tla. *)
(* k = "ion":    text; out, cnt, sym, q of parse_ion_elements                  *)
(* k = "labels": labs; out, res = <<[el, lab]>> of parse_isotope_mods          *)
(* k = "rules":  rules (tagged values); out, res = <<[target, mods]>> of       *)
(*               parse_static_mods, again = the same after write_static_mods   *)
EXTENDS TraceBase, Notations
VARIABLE l

AsMap(ps) == [ x \in { ps[k][1] : k \in 1..Len(ps) } |-> ps[CHOOSE k \in 1..Len(ps) : ps[k][1] = x][2] ]
DistinctKeys(ps) == \A i, j \in 1..Len(ps) : i # j => ps[i][1] # ps[j][1]
IonFails(ev) ==
    LET m == IonElements(ev.text) IN
    IF ev.out \notin {"ret", "ValueError"} THEN {"raised_" \o ev.out}
    ELSE IF ev.out # m.cls THEN {IF m.cls = "ret" THEN "ion_rejected" ELSE "ion_accepted"}
    ELSE IF ev.out = "ret" /\ <<ev.cnt, ev.sym, ev.q>> # <<m.cnt, m.sym, m.q>> THEN {"ion_read_differently"} ELSE {}
LabelFails(ev) ==
    LET allKnown == \A k \in 1..Len(ev.labs) : KnownLabel(ev.labs[k]) IN
    IF ev.out \notin {"ret", "ValueError"} THEN {"raised_" \o ev.out}
    ELSE IF allKnown /\ ev.out # "ret" THEN {"known_label_rejected"}
    ELSE IF ~allKnown /\ ev.out = "ret" THEN {"unknown_label_accepted"}
    ELSE IF ev.out = "ret" /\ (~DistinctKeys(ev.res) \/ AsMap(ev.res) # IsotopeMap(ev.labs)) THEN {"label_map_differs"} ELSE {}
RuleFails(ev) ==
    LET want == RulesMap(ev.rules) IN
    IF ev.out # "ret" THEN {"raised_" \o ev.out}
    ELSE (IF ~DistinctKeys(ev.res) \/ AsMap(ev.res) # want THEN {"rule_map_differs"} ELSE {})
         \cup (IF ~DistinctKeys(ev.again) \/ AsMap(ev.again) # want THEN {"rules_written_and_read_again_differ"} ELSE {})
Fails(ev) == CASE ev.k = "ion" -> IonFails(ev)
               [] ev.k = "labels" -> LabelFails(ev)
               [] ev.k = "rules" -> RuleFails(ev)
               [] OTHER -> {"unknown_event_kind"}
Detail(ev) == CASE ev.k = "ion" -> <<"machine", IonElements(ev.text)>>
                [] ev.k = "labels" -> <<"machine", IsotopeMap(ev.labs)>>
                [] ev.k = "rules" -> <<"machine", RulesMap(ev.rules)>>
                [] OTHER -> <<>>
Init == l = 1 /\ ResetCounters
Next == /\ l <= NEvents
        /\ LET f == Fails(Events[l]) IN RecordD(Events[l], MkVerdict(f, ""), IF f = {} THEN <<>> ELSE Detail(Events[l]))
        /\ l' = l + 1
Spec == Init /\ [][Next]_l
Post == PrintT(Totals) /\ TLCGet(1) + TLCGet(2) + TLCGet(3) = NEvents
==============================================================================
