SPECIFICATION Spec
CONSTANT Full = TRUE
INVARIANT LawIp2
INVARIANT LawDiann
INVARIANT LawCasanovo
CHECK_DEADLOCK FALSE
