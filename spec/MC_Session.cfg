SPECIFICATION Spec
CONSTANT Deviant = FALSE
PROPERTY NoMutation
INVARIANT WellFormedAlways
CHECK_DEADLOCK FALSE
