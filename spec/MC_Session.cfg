SPECIFICATION Spec
CONSTANT Deviant = FALSE
PROPERTY NoMutation
INVARIANT WellFormedAlways
INVARIANT AllEnabled
POSTCONDITION EmitBehaviours
CHECK_DEADLOCK FALSE
