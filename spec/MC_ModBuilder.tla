---------------------------- MODULE MC_ModBuilder ----------------------------
(* Machine layer for C13: the include / exclude recursion of the variable     *)
(* modification builder as a state machine (a stack of partial forms, one     *)
(* action per recursion step, with the modified-residue-count stop rule),     *)
(* checked against the declarative subset enumeration ModBuilder!InternalForms *)
(* in skip mode; and idempotence of StaticForm in skip mode.                  *)
EXTENDS ModBuilder, TLC
CONSTANTS MaxLen, MaxMods
VARIABLES A, rules, mx, stack, out, dupl
vars == <<A, rules, mx, stack, out, dupl>>

G1 == << <<Mod("i:1", 1)>> >>
G2 == << <<Mod("i:2", 1)>>, <<Mod("i:3", 1)>> >>
RuleSpace == { << [style |-> "letter", cls |-> {"S"}, mods |-> <<Mod("i:9", 1)>>, groups |-> G1] >>,
               << [style |-> "letter", cls |-> {"S", "T"}, mods |-> <<Mod("i:9", 1)>>, groups |-> G2] >>,
               << [style |-> "letter", cls |-> {"S"}, mods |-> <<Mod("i:9", 1)>>, groups |-> G1],
                  [style |-> "lookbehind", cls |-> {"S", "T"}, before |-> {"S"}, mods |-> <<Mod("i:8", 1)>>, groups |-> G2] >> }
Seqs == UNION { [1..k -> {"S", "T", "G"}] : k \in 1..MaxLen }

Init == /\ rules \in RuleSpace /\ mx \in 0..MaxMods
        /\ A \in { [ EmptyAnn(s) EXCEPT !.internal = InternalFrom([ i \in 0..(Len(s) - 1) |-> IF i \in pre THEN <<Mod("i:7", 1)>> ELSE <<>> ]) ]
                   : s \in Seqs, pre \in { {}, {0}, {1} } }
        /\ \A e \in SeqSet(A.internal) : e.i < NRes(A)
        /\ stack = << [ann |-> A, idx |-> 0] >> /\ out = {} /\ dupl = FALSE

Limit == mx + Cardinality(ModifiedIdx(A))
(* one recursion step: pop a frame; emit it if finished, otherwise push "exclude" then each "include" *)
Step == /\ stack # <<>>
        /\ LET fr == Head(stack)  X == fr.ann  i == fr.idx IN
           IF i = NRes(A) \/ Cardinality(ModifiedIdx(X)) = Limit
           THEN /\ out' = out \cup {X} /\ dupl' = (dupl \/ X \in out) /\ stack' = Tail(stack)
           ELSE LET opts == Options(A, rules, i)
                    incl == IF ModsAt(X, i) # <<>> THEN <<>>       \* skip mode: an already modified residue is left alone
                            ELSE [ g \in 1..Len(opts) |->
                                     [ann |-> [ X EXCEPT !.internal = InternalFrom([ q \in 0..(NRes(A) - 1) |-> IF q = i THEN opts[g] ELSE ModsAt(X, q) ]) ],
                                      idx |-> i + 1] ] IN
                /\ stack' = incl \o << [ann |-> X, idx |-> i + 1] >> \o Tail(stack)
                /\ UNCHANGED <<out, dupl>>
        /\ UNCHANGED <<A, rules, mx>>
Next == Step
Spec == Init /\ [][Next]_vars

Refines == stack = <<>> => out = InternalForms(A, rules, mx)
NoFormTwice == ~dupl
StaticIdempotent == LET once == StaticForm(A, rules, <<>>, <<>>, "skip") IN StaticForm(once, rules, <<>>, <<>>, "skip") = once
==============================================================================
