------------------------------- MODULE Isotope -------------------------------
(* Reference layer for C14 (exact clause): the isotopologue expansion of a    *)
(* small composition.  Isotope masses and natural abundances typed from the   *)
(* NIST table (independent of the library's chem.txt).  Abundances are        *)
(* integers in units of 1e-8; products are formed limb-wise so nothing        *)
(* exceeds 2^31.                                                              *)
EXTENDS Nist, FiniteSets, Sequences

AUnit == 100000000                       \* abundance 1.0

Isotopes(el) ==
    CASE el = "H" -> { <<MonoMass("H"), 99988500>>, <<MonoMass("D"), 11500>> }
      [] el = "C" -> { <<MonoMass("C"), 98930000>>, <<MonoMass("13C"), 1070000>> }
      [] el = "N" -> { <<MonoMass("N"), 99636000>>, <<MonoMass("15N"), 364000>> }
      [] el = "O" -> { <<MonoMass("O"), 99757000>>, <<MonoMass("17O"), 38000>>, <<MonoMass("18O"), 205000>> }
      [] el = "S" -> { <<MonoMass("S"), 94990000>>, <<MonoMass("33S"), 750000>>, <<MonoMass("34S"), 4250000>>, <<MonoMass("36S"), 10000>> }
      [] el = "P" -> { <<MonoMass("P"), AUnit>> }
      [] el = "Cl" -> { <<MonoMass("Cl"), 75760000>>, <<MonoMass("37Cl"), 24240000>> }
      [] el = "Br" -> { <<MonoMass("Br"), 50690000>>, <<MonoMass("81Br"), 49310000>> }
      [] el = "Fe" -> { <<MonoMass("54Fe"), 5845000>>, <<MonoMass("Fe"), 91754000>>, <<MonoMass("57Fe"), 2119000>>,
                        <<MonoMass("58Fe"), 282000>> }
      [] el = "Se" -> { <<MonoMass("74Se"), 890000>>, <<MonoMass("76Se"), 9370000>>, <<MonoMass("77Se"), 7630000>>,
                        <<MonoMass("78Se"), 23770000>>, <<MonoMass("Se"), 49610000>>, <<MonoMass("82Se"), 8730000>> }
ExactElements == {"H", "C", "N", "O", "S", "P", "Cl", "Br", "Fe", "Se"}

(* a * b / 1e8 for abundances in 1e-8 units (rounded down) *)
MulA(a, b) == LET ah == a \div 10000  al == a % 10000  bh == b \div 10000  bl == b % 10000 IN
              ah * bh + (ah * bl + al * bh) \div 10000 + (al * bl) \div AUnit

RECURSIVE SumAb(_)
SumAb(S) == IF S = {} THEN 0 ELSE LET x == CHOOSE y \in S : TRUE IN x[2] + SumAb(S \ {x})

(* merge entries of equal mass *)
Merge(D) == { <<m, SumAb({ d \in D : d[1] = m })>> : m \in { d[1] : d \in D } }

RECURSIVE SumPairs(_)
SumPairs(P) == IF P = {} THEN 0 ELSE LET p == CHOOSE y \in P : TRUE IN MulA(p[1][2], p[2][2]) + SumPairs(P \ {p})

(* add one atom of element el to the distribution D (a set of <<mass, abundance>> with pairwise distinct masses): *)
(* every (peak, isotope) pair contributes, pairs landing on the same mass add up                                  *)
AddAtom(D, el) ==
    LET P == D \X Isotopes(el)
        M == { FAdd(p[1][1], p[2][1]) : p \in P } IN
    { <<m, SumPairs({ p \in P : FAdd(p[1][1], p[2][1]) = m })>> : m \in M }

RECURSIVE AddAtoms(_, _, _)
AddAtoms(D, el, k) == IF k = 0 THEN D ELSE AddAtoms(AddAtom(D, el), el, k - 1)

(* exact pattern of a composition given as a sequence of <<element, count>> *)
RECURSIVE ExactFrom(_, _, _)
ExactFrom(D, comp, i) == IF i > Len(comp) THEN D ELSE ExactFrom(AddAtoms(D, comp[i][1], comp[i][2]), comp, i + 1)
Exact(comp) == ExactFrom({ <<FZero, AUnit>> }, comp, 1)

MaxAb(D) == LET S == { d[2] : d \in D } IN CHOOSE x \in S : \A y \in S : y <= x
==============================================================================
