SPECIFICATION Spec
CONSTANTS
  MaxTheo = 3
  MaxObs = 5
  Grid = 5
  MaxTol = 6
INVARIANT Refines
INVARIANT LoSafe
CHECK_DEADLOCK FALSE
