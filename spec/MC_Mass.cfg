SPECIFICATION Spec
INVARIANT ChargeLaw
INVARIANT SlotInvariance
INVARIANT Linear
INVARIANT LabileOnlyPrecursor
INVARIANT StaticEqualsExplicit
INVARIANT ConcatLaw
CHECK_DEADLOCK FALSE
