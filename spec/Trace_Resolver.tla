--------------------------- MODULE Trace_Resolver ----------------------------
(* Trace validation for C10: a modification means the same thing however it   *)
(* is spelled.  Table rows (id, name, tabulated masses, tabulated             *)
(* composition) are read from the bundled OBO files by an independent reader  *)
(* and travel in the event; the specification says which spellings a row has  *)
(* and what all of them must agree on.                                        *)
EXTENDS TraceBase, Mods
VARIABLE l

(* documented spellings of a row: bare name, prefixed name, prefixed accession, case variants of the prefix *)
DbPrefixes(db) == CASE db = "unimod" -> {"U:", "UNIMOD:", "unimod:", "Unimod:", "u:"}
                  [] db = "psimod" -> {"M:", "MOD:", "mod:", "m:", "PSI-MOD:", "psi-mod:"}
                  [] db = "xlmod"  -> {"X:", "XLMOD:", "xlmod:", "x:"}
Spellings(row) ==
    { p \o row.name : p \in DbPrefixes(row.db) } \cup { p \o row.id : p \in DbPrefixes(row.db) }
    \cup (IF row.db = "xlmod" THEN {} ELSE {row.name})

(* a result is [out, v]: out = "ret" or "exc:<Class>"; v = Fix mass or composition (pairs) *)
(* "the same error": every spelling fails (the error class of a bare, unprefixed name may differ from the        *)
(* prefixed ones, because only a prefix tells the resolver which vocabulary was meant)                           *)
IsRet(r) == r.out = "ret"
SameMass(rs, tol) == \A i, j \in 1..Len(rs) :
                        /\ IsRet(rs[i]) = IsRet(rs[j])
                        /\ (rs[i].out = "ret" => FWithin(rs[i].v, rs[j].v, tol))
SameComp(rs) == \A i, j \in 1..Len(rs) : IsRet(rs[i]) = IsRet(rs[j]) /\ (rs[i].out = "ret" => rs[i].v = rs[j].v)

RowCompPairs(pairs) == CompFromPairs([ q \in 1..Len(pairs) |-> <<pairs[q][1], pairs[q][2] * E4>> ])

(* mass of a composition returned by the library ([sym, neg, c0, c1, c2] entries) from the independent table *)
CountMass(m, e) == LET v == FAdd(FMulInt(m, e.c0), FAdd(FDivE4(FMulInt(m, e.c1)), FDivE4(FDivE4(FMulInt(m, e.c2))))) IN
                   IF e.neg THEN FNeg(v) ELSE v
Comp8Known(comp) == \A q \in 1..Len(comp) : KnownMono(comp[q].sym)
Comp8Mass(comp) == FSum([ q \in 1..Len(comp) |-> CountMass(MonoMass(comp[q].sym), comp[q]) ])

SpellFails(ev) ==
    LET row == ev.row IN
    (IF \E q \in 1..Len(ev.spellings) : ev.spellings[q] \notin Spellings(row) THEN {"MACHINERY_spelling_not_documented"} ELSE {})
    \cup (IF ~SameMass(ev.mono, Micro(10)) THEN {"spellings_disagree_on_monoisotopic_mass"} ELSE {})
    \cup (IF ~SameMass(ev.avg, Micro(10)) THEN {"spellings_disagree_on_average_mass"} ELSE {})
    \cup (IF ~SameComp(ev.comp) THEN {"spellings_disagree_on_composition"} ELSE {})
    \cup (IF ~SameMass(ev.pep, Micro(10)) THEN {"spellings_disagree_on_peptide_mass"} ELSE {})
    (* an entry whose table row has a composition (even the empty one) has a composition in every spelling *)
    \cup (IF row.db \in {"unimod", "psimod"} /\ row.tabCompKnown /\ \E q \in 1..Len(ev.comp) : ev.comp[q].out # "ret"
          THEN {"entry_with_a_tabulated_composition_has_no_composition"} ELSE {})
    (* the entry resolves to its own table row: tabulated monoisotopic mass *)
    \cup (IF row.hasMono /\ \E q \in 1..Len(ev.mono) : ev.mono[q].out = "ret" /\ ~FWithin(ev.mono[q].v, row.mono, Micro(10))
          THEN {"resolved_mass_is_not_the_rows_mass"} ELSE {})
    (* the composition the library reports for the entry weighs what the table says (Unimod, 1e-3) *)
    \cup (IF row.db = "unimod" /\ row.hasMono /\ ev.compFirstOk /\ Comp8Known(ev.compFirst)
             /\ ~FWithin(Comp8Mass(ev.compFirst), row.mono, Micro(1000))
          THEN {"reported_composition_does_not_weigh_the_tabulated_mass"} ELSE {})
    (* Unimod: tabulated mass = mass of the tabulated composition (only rows whose composition is elemental) *)
    \cup (IF row.db = "unimod" /\ row.hasComp /\ Resolvable(RowCompPairs(row.comp), TRUE)
             /\ ~FWithin(row.mono, CompMass(RowCompPairs(row.comp), TRUE), Micro(1000))
          THEN {"tabulated_mass_is_not_mass_of_tabulated_composition"} ELSE {})

(* monosaccharide rows: [name, formula text, mono] *)
SugarRowFails(ev) ==
    LET r == ParseFormula(ev.formula) IN
    IF ~r[1] \/ ~Resolvable(r[2], TRUE) THEN {"unparsable_tabulated_formula"}
    ELSE (IF ~FWithin(ev.tabMono, CompMass(r[2], TRUE), Micro(1000)) THEN {"tabulated_mass_is_not_mass_of_tabulated_composition"} ELSE {})
         \cup (IF ev.out = "ret" /\ ~FWithin(ev.res, ev.tabMono, Micro(10)) THEN {"glycan_name_resolves_to_another_mass"} ELSE {})
         \cup (IF ev.out # "ret" THEN {"raised_" \o ev.out} ELSE {})

(* generic forms: the value means what Mods!Sem says; ev.mult multiplies it *)
GenericFails(ev) ==
    LET sm == SemMod([v |-> ev.v, m |-> ev.mult]) IN
    IF ~sm.ok \/ ~Resolvable(sm.comp, ev.mono) THEN {"MACHINERY_generator_gave_unresolvable_value"}
    ELSE IF ev.out # "ret" THEN {"raised_" \o ev.out}
    ELSE LET tol == IF ev.mono THEN FAdd(Micro(10), FMulInt(Nano(500), sm.sugars)) ELSE FAdd(Micro(2000), FMulInt(Micro(400), sm.sugars)) IN
         (IF FWithin(ev.res, SemMass(sm, ev.mono), tol) THEN {} ELSE {"generic_form_mass"})
         (* the same value on a labelled peptide, where the mass is taken through the composition: it weighs the same *)
         \cup (IF ev.routeOut = "skipped" THEN {}
               ELSE IF ev.routeOut # "ret" THEN {"rejected_on_the_composition_route_" \o ev.routeOut}
               ELSE IF ~FWithin(ev.route, ev.res, FAdd(Micro(10), FMulInt(Nano(600), ev.mult + sm.sugars)))
               THEN {"weighs_differently_on_the_composition_route"} ELSE {})

Fails(ev) == CASE ev.k = "spell" -> SpellFails(ev)
               [] ev.k = "sugar" -> SugarRowFails(ev)
               [] ev.k = "generic" -> GenericFails(ev)
               [] OTHER -> {"unknown_event_kind"}
(* Named deviation C10_SharedBareName: a bare (unprefixed) Unimod name that is also the name of a PSI-MOD entry is   *)
(* resolved through PSI-MOD, whose tabulated average mass has two decimals.  Exactly: all prefixed spellings agree   *)
(* on everything; the bare name agrees with them on the monoisotopic mass, the composition and the peptide mass and  *)
(* differs only in the average mass, by less than 0.01 Da.                                                            *)
Dev_C10_SharedBareName(ev) ==
    /\ ev.k = "spell" /\ ev.row.db = "unimod"
    /\ SpellFails(ev) = {"spellings_disagree_on_average_mass"}
    /\ LET pre == { q \in 1..Len(ev.spellings) : ev.spellings[q] # ev.row.name } IN
       /\ \A i, j \in pre : ev.avg[i].out = "ret" /\ FWithin(ev.avg[i].v, ev.avg[j].v, Micro(10))
       /\ \A q \in 1..Len(ev.spellings) : ev.avg[q].out = "ret"
       /\ \A i \in 1..Len(ev.spellings), j \in pre : FWithin(ev.avg[i].v, ev.avg[j].v, Micro(10000))
Dev(ev) == IF "C10_SharedBareName" \in Devs /\ ev.k = "spell" /\ Dev_C10_SharedBareName(ev) THEN "C10_SharedBareName" ELSE ""
Detail(ev) == IF ev.k = "generic" THEN <<"want", SemMass(SemMod([v |-> ev.v, m |-> ev.mult]), ev.mono), "got", ev.res>> ELSE <<>>
Init == l = 1 /\ ResetCounters
Next == /\ l <= NEvents
        /\ LET f == Fails(Events[l]) IN RecordD(Events[l], MkVerdict(f, IF f = {} THEN "" ELSE Dev(Events[l])),
                                                IF f = {} THEN <<>> ELSE Detail(Events[l]))
        /\ l' = l + 1
Spec == Init /\ [][Next]_l
Post == PrintT(Totals) /\ TLCGet(1) + TLCGet(2) + TLCGet(3) = NEvents
==============================================================================
