----------------------------- MODULE Combinatoric ----------------------------
(* Reference layer for C19: the standard enumerations over positions 1..n,    *)
(* in the order itertools yields them (lexicographic by position).            *)
EXTENDS Integers, Sequences, FiniteSets, SequencesExt

Tuples(n, k) == [1..k -> 1..n]

RECURSIVE LexLessFrom(_, _, _)
LexLessFrom(a, b, i) == IF i > Len(a) THEN FALSE
                        ELSE IF a[i] < b[i] THEN TRUE
                        ELSE IF a[i] > b[i] THEN FALSE
                        ELSE LexLessFrom(a, b, i + 1)
LexLess(a, b) == LexLessFrom(a, b, 1)

Distinct(t)      == \A i, j \in 1..Len(t) : i # j => t[i] # t[j]
Increasing(t)    == \A i \in 1..(Len(t) - 1) : t[i] < t[i + 1]
NonDecreasing(t) == \A i \in 1..(Len(t) - 1) : t[i] <= t[i + 1]

IndexTuples(kind, n, k) ==
    SetToSortSeq(
      CASE kind = "product" -> Tuples(n, k)
        [] kind = "permutations" -> { t \in Tuples(n, k) : Distinct(t) }
        [] kind = "combinations" -> { t \in Tuples(n, k) : Increasing(t) }
        [] kind = "combinations_with_replacement" -> { t \in Tuples(n, k) : NonDecreasing(t) },
      LexLess)

RECURSIVE Fact(_)
Fact(m) == IF m <= 1 THEN 1 ELSE m * Fact(m - 1)
RECURSIVE Pow(_, _)
Pow(b, e) == IF e = 0 THEN 1 ELSE b * Pow(b, e - 1)
(* multiplicative forms: no factorial of 13 or more is ever formed (TLC integers are 32 bit) *)
RECURSIVE BinomR(_, _)
BinomR(m, r) == IF r = 0 THEN 1 ELSE (BinomR(m - 1, r - 1) * m) \div r
Binom(m, r) == IF r < 0 \/ r > m THEN 0 ELSE BinomR(m, IF r > m - r THEN m - r ELSE r)
RECURSIVE Falling(_, _)
Falling(m, k) == IF k = 0 THEN 1 ELSE m * Falling(m - 1, k - 1)

ExpectedCount(kind, n, k) ==
    CASE kind = "product" -> Pow(n, k)
      [] kind = "permutations" -> IF k > n THEN 0 ELSE Falling(n, k)
      [] kind = "combinations" -> Binom(n, k)
      [] kind = "combinations_with_replacement" -> IF n = 0 THEN (IF k = 0 THEN 1 ELSE 0) ELSE Binom(n + k - 1, k)
==============================================================================
