----------------------------- MODULE Trace_Match -----------------------------
(* Trace validation for C17 (spectrum matching). *)
EXTENDS TraceBase, Match, Fix
VARIABLE l

RECURSIVE SetToSeqLocal(_)
SetToSeqLocal(S) == IF S = {} THEN <<>> ELSE LET x == CHOOSE y \in S : TRUE IN <<x>> \o SetToSeqLocal(S \ {x})
FoldInts(s) == LET F[i \in 0..Len(s)] == IF i = 0 THEN 0 ELSE F[i - 1] + s[i] IN F[Len(s)]

(* op = "indices": get_matched_indices -> per theoretical value <<start, end>> (end exclusive) or <<>> for None *)
IndicesFails(ev) ==
    IF Len(ev.res) # Len(ev.theo8) THEN {"result_length"}
    ELSE UNION { LET W == Window(ev.theo8[q], ev.obs8, ev.tt, ev.tol)
                     got == IF ev.res[q] = <<>> THEN {} ELSE (ev.res[q][1])..(ev.res[q][2] - 1) IN
                 (IF got \ W # {} THEN {"peak_outside_tolerance"} ELSE {})
                 \cup (IF W \ got # {} THEN {"peak_in_tolerance_missed"} ELSE {})
               : q \in 1..Len(ev.theo8) }

(* op = "match": match_spectra. mode all: list of index lists (<<>> = None); closest / largest: index or -1 *)
MatchFails(ev) ==
    IF Len(ev.res) # Len(ev.theo8) THEN {"result_length"}
    ELSE UNION { LET t == ev.theo8[q]
                     W == Window(t, ev.obs8, ev.tt, ev.tol) IN
                 IF ev.mode = "all"
                 THEN (IF SeqToSet(ev.res[q]) \ W # {} THEN {"peak_outside_tolerance"} ELSE {})
                      \cup (IF W \ SeqToSet(ev.res[q]) # {} THEN {"peak_in_tolerance_missed"} ELSE {})
                      \cup (IF Len(ev.res[q]) # Cardinality(SeqToSet(ev.res[q])) THEN {"duplicate_index"} ELSE {})
                 ELSE IF W = {} THEN (IF ev.res[q] # -1 THEN {"match_reported_without_peak"} ELSE {})
                 ELSE IF ev.res[q] = -1 THEN {"no_match_reported_although_peak_in_tolerance"}
                 ELSE IF ev.mode = "closest"
                      THEN (IF ev.res[q] \notin Closest(t, ev.obs8, ev.tt, ev.tol) THEN {"not_a_closest_peak"} ELSE {})
                      ELSE (IF ev.res[q] \notin Largest(t, ev.obs8, ev.inten, ev.tt, ev.tol) THEN {"not_a_largest_peak"} ELSE {})
               : q \in 1..Len(ev.theo8) }

(* op = "fragmatch": get_fragment_matches in mode all on shuffled inputs.                               *)
(* ev.frags = <<[id, t8]>> (input order), ev.peaks = <<[m8, inten]>> (input order),                      *)
(* ev.res = <<[id, m8, inten]>>.  Expected: every (fragment, peak) pair with the peak in the window.     *)
FragMatchFails(ev) ==
    LET want == { <<ev.frags[f].id, ev.peaks[p].m8, ev.peaks[p].inten, p>> :
                    <<f, p>> \in { fp \in (1..Len(ev.frags)) \X (1..Len(ev.peaks)) :
                       LET t == ev.frags[fp[1]].t8  off == Offset8(t, ev.tt, ev.tol) IN
                       ev.peaks[fp[2]].m8 >= t - off /\ ev.peaks[fp[2]].m8 <= t + off } }
        wantBag == BagOfSeq(LET s == SetToSeqLocal(want) IN [ q \in 1..Len(s) |-> <<s[q][1], s[q][2], s[q][3]>> ])
        gotBag  == BagOfSeq([ q \in 1..Len(ev.res) |-> <<ev.res[q].id, ev.res[q].m8, ev.res[q].inten>> ]) IN
    IF gotBag = wantBag THEN {} ELSE {"fragment_matches_differ"}

(* op = "fragmatch1": get_fragment_matches in mode closest / largest: every fragment with a peak in tolerance is   *)
(* matched exactly once, with an admissible peak; fragments without one are not matched                          *)
InWindow(ev, f, p) == LET t == ev.frags[f].t8  off == Offset8(t, ev.tt, ev.tol) IN
                      ev.peaks[p].m8 >= t - off /\ ev.peaks[p].m8 <= t + off
WindowOf(ev, f) == { p \in 1..Len(ev.peaks) : InWindow(ev, f, p) }
Admissible1(ev, f) ==
    LET W == WindowOf(ev, f) IN
    IF ev.mode = "closest"
    THEN { p \in W : \A q \in W : AbsDiff(ev.peaks[p].m8, ev.frags[f].t8) <= AbsDiff(ev.peaks[q].m8, ev.frags[f].t8) }
    ELSE { p \in W : \A q \in W : ev.peaks[p].inten >= ev.peaks[q].inten }
FragMatch1Fails(ev) ==
    UNION { LET mine == { q \in 1..Len(ev.res) : ev.res[q].id = ev.frags[f].id } IN
            IF WindowOf(ev, f) = {} THEN (IF mine # {} THEN {"match_reported_without_peak"} ELSE {})
            ELSE IF mine = {} THEN {"fragment_with_peak_in_tolerance_not_matched"}
            ELSE IF Cardinality(mine) > 1 THEN {"fragment_matched_more_than_once"}
            ELSE LET r == ev.res[CHOOSE q \in mine : TRUE] IN
                 IF \E p \in Admissible1(ev, f) : ev.peaks[p].m8 = r.m8 /\ ev.peaks[p].inten = r.inten THEN {}
                 ELSE {"matched_peak_not_admissible"}
          : f \in 1..Len(ev.frags) }

(* op = "cov1": coverage after a one-match-per-fragment matching: every fragment with a peak in tolerance counts   *)
(* its residues [0, id) once                                                                                     *)
Cov1Fails(ev) ==
    LET matched == { f \in 1..Len(ev.frags) : WindowOf(ev, f) # {} }
        want == [ p \in 1..ev.n |-> Cardinality({ f \in matched : p <= ev.frags[f].id }) ] IN
    IF matched = {} THEN (IF ev.res # <<>> THEN {"coverage_of_nothing"} ELSE {})
    ELSE IF ev.res # want THEN {"coverage_counts"} ELSE {}

(* op = "pct": get_matched_intensity_percentage(matches of mode all, intensities) *)
PctFails(ev) ==
    LET total == FoldInts([ p \in 1..Len(ev.peaks) |-> ev.peaks[p].inten ])
        matched == { p \in 1..Len(ev.peaks) : \E f \in 1..Len(ev.frags) :
                       LET t == ev.frags[f].t8  off == Offset8(t, ev.tt, ev.tol) IN
                       ev.peaks[p].m8 >= t - off /\ ev.peaks[p].m8 <= t + off }
        msum == FoldInts(LET s == SetToSeqLocal(matched) IN [ q \in 1..Len(s) |-> ev.peaks[s[q]].inten ]) IN
    (IF FLess(ev.res, FZero) \/ FLess(FInt(1), ev.res) THEN {"fraction_outside_0_1"} ELSE {})
    \cup (IF total > 0 /\ ~FWithin(FMulInt(ev.res, total), FInt(msum), Nano(total + 1)) THEN {"fraction_value"} ELSE {})
    \cup (IF total = 0 /\ ev.res # FZero THEN {"fraction_of_empty"} ELSE {})

(* op = "cov": get_match_coverage of one-match-per-fragment results; fragments are b ions [0, e) of charge 1 *)
(* ev.matchedEnds = ends of the matched fragments; ev.n = peptide length; ev.res = the "+b" array (or <<>>)  *)
CovFails(ev) ==
    LET want == [ p \in 1..ev.n |-> Cardinality({ q \in 1..Len(ev.matchedEnds) : p <= ev.matchedEnds[q] }) ] IN
    IF Len(ev.matchedEnds) = 0 THEN (IF ev.res # <<>> THEN {"coverage_of_nothing"} ELSE {})
    ELSE IF ev.res # want THEN {"coverage_counts"} ELSE {}

(* off-grid absolute tolerance with exact decimals: ev.theo / ev.obs / ev.ftol are Fix numbers.            *)
(* Cases in which a peak lies within 2e-9 of a window edge are not judged (float rounding could decide).   *)
NearEdge(t, o, tol) == \/ FWithin(o, FSub(t, tol), Nano(2)) \/ FWithin(o, FAdd(t, tol), Nano(2))
FixWindow(t, obs, tol) == { j \in 0..(Len(obs) - 1) : FLeq(FSub(t, tol), obs[j + 1]) /\ FLeq(obs[j + 1], FAdd(t, tol)) }
FixFails(ev) ==
    (* a tolerance of exactly 0 is decided exactly (t - 0 = t in floating point too): only equal values match *)
    IF ev.ftol # FZero /\ \E q \in 1..Len(ev.theo), j \in 1..Len(ev.obs) : NearEdge(ev.theo[q], ev.obs[j], ev.ftol) THEN {}
    ELSE UNION { LET W == FixWindow(ev.theo[q], ev.obs, ev.ftol) IN
                 (IF SeqToSet(ev.res[q]) # W THEN {"offgrid_window"} ELSE {}) : q \in 1..Len(ev.theo) }

Fails(ev) == IF ev.out # "ret" THEN {"raised_" \o ev.out}
             ELSE CASE ev.op = "indices" -> IndicesFails(ev)
                    [] ev.op = "match" -> MatchFails(ev)
                    [] ev.op = "fragmatch" -> FragMatchFails(ev)
                    [] ev.op = "fragmatch1" -> FragMatch1Fails(ev)
                    [] ev.op = "cov1" -> Cov1Fails(ev)
                    [] ev.op = "pct" -> PctFails(ev)
                    [] ev.op = "cov" -> CovFails(ev)
                    [] ev.op = "fix" -> FixFails(ev)
                    [] OTHER -> {"unknown_op"}
(* C17_TwinPeaksCountedOnce: the fraction groups the matches by observed m/z VALUE, so of several observed peaks   *)
(* with one and the same m/z only one is counted - the one that comes last in the caller's peak list.              *)
Dev_C17_TwinPeaksCountedOnce(ev) ==
    /\ ev.op = "pct" /\ ev.out = "ret"
    /\ LET total == FoldInts([ p \in 1..Len(ev.peaks) |-> ev.peaks[p].inten ])
           matched == { p \in 1..Len(ev.peaks) : \E f \in 1..Len(ev.frags) : InWindow(ev, f, p) }
           lastTwin == { p \in matched : \A q \in matched : ev.peaks[q].m8 = ev.peaks[p].m8 => q <= p }
           msum == FoldInts(LET s == SetToSeqLocal(lastTwin) IN [ q \in 1..Len(s) |-> ev.peaks[s[q]].inten ]) IN
       /\ lastTwin # matched
       /\ total > 0 /\ FWithin(FMulInt(ev.res, total), FInt(msum), Nano(total + 1))
Dev(ev) == IF "C17_TwinPeaksCountedOnce" \in Devs /\ Dev_C17_TwinPeaksCountedOnce(ev) THEN "C17_TwinPeaksCountedOnce" ELSE ""
Init == l = 1 /\ ResetCounters
Next == /\ l <= NEvents
        /\ LET f == Fails(Events[l]) IN Record(Events[l], MkVerdict(f, IF f = {} THEN "" ELSE Dev(Events[l])))
        /\ l' = l + 1
Spec == Init /\ [][Next]_l
Post == PrintT(Totals) /\ TLCGet(1) + TLCGet(2) + TLCGet(3) = NEvents
==============================================================================
