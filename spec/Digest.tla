------------------------------- MODULE Digest --------------------------------
(* Reference layer: which spans a digest must return (property C06).          *)
(* A protein of n residues has positions 0..n; a span is <<s, e, k>> with     *)
(* 0 <= s < e <= n (end exclusive) and k = number of cleavage sites strictly  *)
(* inside it.  NoBound (-1) stands for "None".                                *)
EXTENDS Naturals, Integers, FiniteSets, Sequences

NoBound == -1

Cuts(n, S) == (S \cap (0..n)) \cup {0, n}

Inside(n, S, s, e) == Cardinality({c \in Cuts(n, S) : s < c /\ c < e})

LenOk(s, e, mn, mx) ==
    /\ (mn = NoBound \/ e - s >= mn)
    /\ (mx = NoBound \/ e - s <= mx)
    /\ e - s >= 1

(* spans whose two ends are termini or sites with at most mc sites inside *)
Enz(n, S, mc) ==
    { <<s, e, Inside(n, S, s, e)>> : <<s, e>> \in
        { p \in Cuts(n, S) \X Cuts(n, S) : p[1] < p[2] /\ Inside(n, S, p[1], p[2]) <= mc } }

(* every span sharing exactly one end with an enzymatic span (and lying inside it) *)
SemiOf(n, S, mc) ==
    UNION { { <<p[1], i, Inside(n, S, p[1], i)>> : i \in (p[1] + 1)..(p[2] - 1) } \cup
            { <<i, p[2], Inside(n, S, i, p[2])>> : i \in (p[1] + 1)..(p[2] - 1) } : p \in Enz(n, S, mc) }

AllSites(n, S) == (0..n) \subseteq S

(* every proper sub-span, zero missed cleavages *)
NonSpecific(n, mn, mx) ==
    { <<s, e, 0>> : <<s, e>> \in { p \in (0..n) \X (0..n) : p[1] < p[2] /\ ~(p[1] = 0 /\ p[2] = n)
                                                       /\ LenOk(p[1], p[2], mn, mx) } }

Filter(X, mn, mx) == { sp \in X : LenOk(sp[1], sp[2], mn, mx) }

(* what a digest with site set S must return (S not covering every position) *)
Specific(n, S, mc, semi, mn, mx) ==
    Filter(IF semi THEN Enz(n, S, mc) \cup SemiOf(n, S, mc) ELSE Enz(n, S, mc), mn, mx)

Spans(n, S, mc, semi, mn, mx) ==
    IF n = 0 THEN {}
    ELSE IF AllSites(n, S) THEN NonSpecific(n, mn, mx)
    ELSE Specific(n, S, mc, semi, mn, mx)

(* ------------------------------------------------------------------------ *)
(* Cleavage rules.  A rule is a record; a site is a position 0..n.           *)
(*   style "zero"      zero-width look-around rule: position i is a site iff *)
(*        before    # {} => i >= 1 /\ seq[i]   \in before      (?<=[..])     *)
(*        beforeNot # {} => i = 0  \/ seq[i]   \notin beforeNot (?<![..])    *)
(*        after     # {} => i < n  /\ seq[i+1] \in after       (?=[..])      *)
(*        afterNot  # {} => i < n  /\ seq[i+1] \notin afterNot (?=[^..])     *)
(*        notAfter  # {} => i = n  \/ seq[i+1] \notin notAfter (?![..])      *)
(*   style "consuming" lit = <<set1, ..., setm>>: a match starting at        *)
(*        1-based position s gives the site s (= 0-based start + 1)          *)
(*   style "all"  (non-specific)  every position;  style "never"  no site    *)
(* ------------------------------------------------------------------------ *)
ZeroRule(b, bn, a, an, na) == [style |-> "zero", before |-> b, beforeNot |-> bn, after |-> a, afterNot |-> an,
                               notAfter |-> na, lit |-> <<>>]
LookBehind(b) == ZeroRule(b, {}, {}, {}, {})
LookAhead(a)  == ZeroRule({}, {}, a, {}, {})

Protease(name) ==
    CASE name = "arg-c" -> LookBehind({"R"})
      [] name = "asp-n" -> LookAhead({"D"})
      [] name = "chymotrypsin" -> ZeroRule({"F","W","Y","L"}, {}, {}, {}, {"P"})
      [] name = "chymotrypsin/P" -> LookBehind({"F","W","Y","L"})
      [] name = "promega-chymotrypsin-high-specificity" -> LookBehind({"Y","F","W"})
      [] name = "promega-chymotrypsin-low-specificity" -> LookBehind({"Y","F","W","L","M"})
      [] name = "glu-c" -> LookBehind({"E"})
      [] name = "lys-c" -> LookBehind({"K"})
      [] name = "lys-n" -> LookAhead({"K"})
      [] name = "proteinase k" -> LookBehind({"A","E","F","I","L","T","V","W","Y"})
      [] name = "trypsin" -> ZeroRule({"K","R"}, {}, {}, {"P"}, {})
      [] name = "trypsin/P" -> LookBehind({"K","R"})
      [] name = "proalanase" -> LookBehind({"P","A"})
      [] name = "elastase" -> LookBehind({"A","G","S","V","L","I"})
      [] name = "pepsin" -> LookBehind({"F","L","W","Y"})
      [] name = "thermolysin" -> LookBehind({"L","F","I","A","V","M"})
      [] name = "proalanase-low-specificity" -> LookBehind({"P","A","S","G"})
      [] name = "non-specific" -> [style |-> "all"]
      [] name = "no-cleave" -> [style |-> "never"]

ProteaseNames == {"arg-c","asp-n","chymotrypsin","chymotrypsin/P","promega-chymotrypsin-high-specificity",
    "promega-chymotrypsin-low-specificity","glu-c","lys-c","lys-n","proteinase k","trypsin","trypsin/P",
    "proalanase","elastase","pepsin","thermolysin","proalanase-low-specificity","non-specific","no-cleave"}

(* seq is a sequence of one-letter strings *)
Sites(seq, r) ==
    LET n == Len(seq) IN
    CASE r.style = "all" -> 0..n
      [] r.style = "never" -> {}
      [] r.style = "zero" ->
            { i \in 0..n :
                /\ (r.before    # {} => (i >= 1 /\ seq[i] \in r.before))
                /\ (r.beforeNot # {} => (i = 0 \/ seq[i] \notin r.beforeNot))
                /\ (r.after     # {} => (i < n /\ seq[i + 1] \in r.after))
                /\ (r.afterNot  # {} => (i < n /\ seq[i + 1] \notin r.afterNot))
                /\ (r.notAfter  # {} => (i = n \/ seq[i + 1] \notin r.notAfter)) }
      [] r.style = "consuming" ->
            LET m == Len(r.lit) IN
            { s \in 1..n : /\ s + m - 1 <= n
                           /\ \A j \in 1..m : seq[s + j - 1] \in r.lit[j] }
      (* one pattern with both styles as alternatives, "([KR])|(?=[D])", the two letter classes being disjoint:     *)
      (* a residue of the first class is cut after, a residue of the second class is cut before                     *)
      [] r.style = "mixed" ->
            { s \in 1..n : seq[s] \in r.lit[1] } \cup { i \in 0..(n - 1) : seq[i + 1] \in r.after }

SitesOfRules(seq, rules) == UNION { Sites(seq, rules[i]) : i \in 1..Len(rules) }

IsNonSpecific(rules) == \E i \in 1..Len(rules) : rules[i].style = "all"

(* digest(): rules applied simultaneously *)
DigestSpans(seq, rules, mc, semi, mn, mx) ==
    LET n == Len(seq) IN
    IF n = 0 THEN {}
    ELSE IF IsNonSpecific(rules) THEN NonSpecific(n, mn, mx)
    ELSE Specific(n, SitesOfRules(seq, rules), mc, semi, mn, mx)

(* spans in the order sort_output=True promises: by (start, end, value) *)
SpanLess(a, b) == \/ a[1] < b[1]
                  \/ a[1] = b[1] /\ a[2] < b[2]
                  \/ a[1] = b[1] /\ a[2] = b[2] /\ a[3] < b[3]
==============================================================================
