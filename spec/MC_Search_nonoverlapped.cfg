SPECIFICATION Spec
CONSTANTS
  MaxT = 6
  MaxQ = 3
  Overlapped = FALSE
INVARIANT Refines
CHECK_DEADLOCK FALSE
