SPECIFICATION Spec
CONSTANT MaxLen = 4
INVARIANT Complementary
INVARIANT ShiftLaw
INVARIANT XZ
INVARIANT Spans
INVARIANT Counts
CHECK_DEADLOCK FALSE
