SPECIFICATION Spec
CONSTANT MaxN = 4
INVARIANT CountLaw
INVARIANT NoDup
INVARIANT Ordered
INVARIANT EmptyAboveN
INVARIANT Nesting
CHECK_DEADLOCK FALSE
