----------------------------- MODULE Trace_Mass ------------------------------
(* Trace validation for the mass family.  Every event is a recorded call of   *)
(* the real mass / mz / comp / fragment / condense functions; the expected    *)
(* value is computed by TLC from first principles (Mass.tla over Nist.tla).   *)
EXTENDS TraceBase, Mass, ProFormaText
VARIABLE l

NoArg == -99
Pre(p, S) == { p \o x : x \in S }

EffZ(ev) == IF ev.zarg # NoArg THEN ev.zarg ELSE ev.A.charge
EffAdducts(ev) == IF ev.adductsArg # "" THEN ev.adductsArg
                  ELSE IF Len(ev.A.adducts) > 0 THEN SubSeq(ev.A.adducts[1].v, 3, Len(ev.A.adducts[1].v)) ELSE ""

(* half a unit of the last kept decimal, for results rounded to `prec` places *)
HalfUlp(prec) == IF prec < 0 THEN FZero
                 ELSE IF prec = 0 THEN <<0, 500000000>>
                 ELSE <<0, 5 * Pow10(9 - prec - 1)>>
BaseTol(mono) == IF mono THEN Micro(10) ELSE Micro(2000)

(* ---- k = "mass": mass()/mz() of a precursor ---- *)
MassFails(ev) ==
    IF ev.text # Write(ev.A, FALSE) THEN {"MACHINERY_text_not_spec_text"}
    ELSE IF ~AllResolvable(ev.A, ev.mono) THEN {"MACHINERY_generator_gave_unresolvable_annotation"}
    ELSE IF ev.out # "ret" THEN {"raised_" \o ev.out}
    ELSE LET z == EffZ(ev)
             want == PrecursorMass(ev.A, z, EffAdducts(ev), ev.iso, ev.loss, ev.mono, FALSE)
             tol == FAdd(BaseTol(ev.mono), HalfUlp(ev.prec)) IN
         (IF ev.res2 # ev.res THEN {"second_identical_call_returns_another_value"} ELSE {}) \cup
         (* a result asked for with precision p (0 included) is a multiple of 10^-p *)
         (IF ev.prec >= 0 /\ ev.prec <= 8 /\ LET unit == Pow10(9 - ev.prec)  r == ev.res[2] % unit IN r > 2 /\ unit - r > 2
          THEN {"result_not_rounded_to_the_precision"} ELSE {}) \cup
         IF ev.call = "mass"
         THEN (IF FWithin(ev.res, want, tol) THEN {} ELSE {"mass_is_not_sum_of_parts"})
         ELSE IF z > 0 THEN (IF FWithin(FMulInt(ev.res, z), want, FMulInt(tol, z)) THEN {} ELSE {"mz_times_z_is_not_mass"})
         ELSE IF z = 0 THEN (IF FWithin(ev.res, want, tol) THEN {} ELSE {"mz_of_neutral_is_not_mass"})
         ELSE {}

(* ---- k = "rowmass": a vocabulary entry whose mass is tabulated (raw table row travels in the event) ---- *)
(* A0 = the peptide without the entry; the entry sits in one slot with multiplier mult                      *)
RowFails(ev) ==
    IF ev.out # "ret" THEN {"raised_" \o ev.out}
    ELSE LET base == PrecursorMass(ev.A0, ev.A0.charge, "", 0, FZero, ev.mono, FALSE)
             want == FAdd(base, FMulInt(IF ev.mono THEN ev.rowMono ELSE ev.rowAvg, ev.mult))
             tol == IF ev.mono THEN Micro(10 + 10 * ev.mult) ELSE Micro(2000 * ev.mult) IN
         IF FWithin(ev.res, want, tol) THEN {} ELSE {"entry_mass_not_added"}

(* ---------------------------------------------------------------------------------------------------- *)
(* C03: the mass calculator and the composition calculator agree.                                          *)
(* A returned composition is a sequence of [sym, neg, c0, c1, c2]: count = +-(c0 + c1*1e-4 + c2*1e-8).    *)
CountMass(m, e) == LET v == FAdd(FMulInt(m, e.c0), FAdd(FDivE4(FMulInt(m, e.c1)), FDivE4(FDivE4(FMulInt(m, e.c2))))) IN
                   IF e.neg THEN FNeg(v) ELSE v
KnownSym(sym, mono) == IF mono THEN KnownMono(sym) ELSE KnownAvg(sym)
Comp8Resolvable(comp, mono) == \A q \in 1..Len(comp) : KnownSym(comp[q].sym, mono)
Comp8Mass(comp, mono) == FSum([ q \in 1..Len(comp) |-> CountMass(AtomMass(comp[q].sym, mono), comp[q]) ])

(* 5 ppm of x *)
Ppm5(x) == FDivE4(FDivE4(FMulInt(FAbs(x), 500)))

(* k = "agree": mass(...) vs comp_mass(...) with the same options; ev.modMass = mass(...) - mass of the stripped peptide *)
AgreeFails(ev) ==
    IF ev.out # "ret" THEN {"raised_" \o ev.out}
    ELSE IF ~Comp8Resolvable(ev.comp, ev.mono) THEN {}      \* an element outside the independent table: not judged
    ELSE LET viaComp == FAdd(Comp8Mass(ev.comp, ev.mono), ev.delta)
             tol == IF ev.mono THEN Micro(100) ELSE FAdd(Micro(1000), Ppm5(ev.modMass)) IN
         IF FWithin(ev.massRes, viaComp, tol) THEN {} ELSE {"mass_differs_from_mass_of_composition_plus_delta"}

(* k = "estimate": comp(estimate_delta = TRUE): the estimated composition has the same monoisotopic mass *)
EstimateFails(ev) ==
    IF ev.out # "ret" THEN {"raised_" \o ev.out}
    ELSE IF ~Comp8Resolvable(ev.comp, TRUE) THEN {}
    ELSE IF FWithin(ev.massRes, Comp8Mass(ev.comp, TRUE), Micro(100)) THEN {} ELSE {"estimated_composition_has_another_mass"}

(* k = "rowagree": a vocabulary row; judged only when the raw row passes the statement's predicates *)
RowComp(pairs) == CompFromPairs([ q \in 1..Len(pairs) |-> <<pairs[q][1], pairs[q][2] * E4>> ])
OnlyCHNOPS(pairs) == \A q \in 1..Len(pairs) : pairs[q][1] \in {"C", "H", "N", "O", "P", "S", "13C", "15N", "18O", "2H", "17O", "34S", "D"}
RowSelfConsistent(ev) == /\ Resolvable(RowComp(ev.rowComp), TRUE)
                         /\ FWithin(ev.rowMono, CompMass(RowComp(ev.rowComp), TRUE), Micro(50))
                         /\ (~ev.mono => /\ Resolvable(RowComp(ev.rowComp), FALSE) /\ ev.rowAvg # <<>>
                                          /\ FWithin(ev.rowAvg, CompMass(RowComp(ev.rowComp), FALSE), Micro(500)))
(* XLMOD rows (average mode only): the table has no average masses, the library derives them from the entry's       *)
(* formula - the very composition it reports - so the two calculators must agree (elements C,H,N,O,P,S and isotopes)  *)
ReturnedCHNOPS(ev) == \A q \in 1..Len(ev.comp) : ev.comp[q].sym \in {"C", "H", "N", "O", "P", "S", "13C", "15N", "18O", "2H", "17O", "34S", "D", "e", "p", "n"}
RowAgreeFails(ev) ==
    IF ev.db = "xlmod" THEN (IF ev.mono \/ ev.out = "bothraise" \/ (ev.out = "ret" /\ ~ReturnedCHNOPS(ev)) THEN {} ELSE AgreeFails(ev))
    ELSE IF ev.db = "psimod" /\ ~RowSelfConsistent(ev) THEN {}
    ELSE IF ~ev.mono /\ ~OnlyCHNOPS(ev.rowComp) THEN {}
    ELSE IF ev.out = "bothraise" THEN {}     \* resolution of the spelling is C10's business; both paths agree it fails
    ELSE AgreeFails(ev)

(* ---------------------------------------------------------------------------------------------------- *)
(* C12: global rules equal the explicit per-residue form.                                                  *)
(* k = "static": A carries static rules; ev.condensed = condense_static_mods(text); ev.pairs = sequence of *)
(* [what, a, b]: the same real query on the rule form (a) and on the explicit form (b), projected alike.   *)
StaticFails(ev) ==
    IF ev.text # Write(ev.A, FALSE) THEN {"MACHINERY_text_not_spec_text"}
    ELSE IF ev.out # "ret" THEN {"raised_" \o ev.out}
    ELSE (IF ev.condensed # Write(CondenseStatic(ev.A, StaticRules(ev.A)), FALSE) THEN {"condensed_form_is_not_the_explicit_form"} ELSE {})
         \cup { "differs_" \o ev.pairs[q].what : q \in { r \in 1..Len(ev.pairs) :
                     IF ev.pairs[r].kind = "fix" THEN ~FWithin(ev.pairs[r].a, ev.pairs[r].b, Micro(1))
                     ELSE IF ev.pairs[r].kind = "fixbag" THEN
                          LET a == ev.pairs[r].a  b == ev.pairs[r].b IN
                          Len(a) # Len(b) \/ \E i \in 1..Len(a) : ~FWithin(a[i], b[i], Micro(1))
                     ELSE ev.pairs[r].a # ev.pairs[r].b } }

(* k = "label": neutral precursor mass with and without the global isotope labels *)
LabelFails(ev) ==
    IF ev.out # "ret" THEN {"raised_" \o ev.out}
    ELSE LET A == ev.A
             plain == [ A EXCEPT !.isotope = <<>> ]
             want == FSub(SemMass(NeutralSem(A, TRUE, ev.labelMods), ev.mono), SemMass(NeutralSem(plain, TRUE, FALSE), ev.mono))
             got == FSub(ev.labelled, ev.plain)
             shifts == [ q \in 1..Len(ev.byCharge) |-> FSub(ev.byCharge[q].labelled, ev.byCharge[q].plain) ] IN
         IF ~AllResolvable(A, ev.mono) THEN {"MACHINERY_generator_gave_unresolvable_annotation"}
         ELSE (IF FWithin(got, want, BaseTol(ev.mono)) THEN {} ELSE {"label_shift_is_not_atoms_times_isotope_difference"})
              \cup (IF ev.byChargeOut # "ret" THEN {"raised_" \o ev.byChargeOut} ELSE {})
              \cup (IF \E q \in 1..Len(shifts) : ~FWithin(shifts[q], shifts[1], BaseTol(ev.mono))
                    THEN {"label_shift_depends_on_the_charge"} ELSE {})

(* ---------------------------------------------------------------------------------------------------- *)
(* C18: condensing every modification to a numeric mass shift preserves the peptide.                      *)
(* ev.res = condense_to_mass_mods(text, include_plus, precision); ev.parsed = projection of parse(res);    *)
(* ev.massIn / ev.massOut = real neutral mass (charge 0) of the input and of the result                     *)
AllModsOf(X) == X.labile \o X.static \o X.isotope \o X.unknown \o X.nterm \o X.cterm
                \o FoldLeft(LAMBDA acc, e : acc \o e.mods, <<>>, X.internal)
                \o FoldLeft(LAMBDA acc, iv : acc \o iv.mods, <<>>, X.intervals)
PrecUnit(prec) == IF prec >= 9 THEN Nano(1) ELSE <<0, Pow10(9 - prec)>>
NonZeroSem(mods) == LET sm == SemSum(mods) IN sm.ok /\ ~FWithin(SemMass(sm, TRUE), FZero, Micro(10))
IsFormulaValue(v) == Len(v) > 10 /\ SubSeq(v, 1, 10) = "s:Formula:" /\ \A k \in 1..Len(v) : SubSeq(v, k, k) \notin {"|", "#"}
CondenseFails(ev) ==
    LET A == ev.A  n == NRes(A)  out == ev.parsed
        X == CondenseStatic(A, StaticRules(A))
        labs == Labels(A)
        Labelled(p) == \E q \in 1..Len(labs) : Get(Residue(A.seq[p + 1]), LabelElement(labs[q])) > 0
        localised == A.unknown = <<>> /\ A.intervals = <<>>
        shifts == AllModsOf(out) IN
    IF ev.text # Write(A, FALSE) THEN {"MACHINERY_text_not_spec_text"}
    ELSE IF ev.out # "ret" THEN {"raised_" \o ev.out}
    ELSE IF ~ev.parsedOk THEN {"result_does_not_parse"}
    ELSE (IF out.seq # A.seq THEN {"residues_changed"} ELSE {})
         \cup (IF \E q \in 1..Len(shifts) : Tag(shifts[q].v) \notin {"i", "f"} THEN {"non_numeric_modification_left"} ELSE {})
         \cup (IF out.static # <<>> \/ out.isotope # <<>> THEN {"global_rule_left"} ELSE {})
         \cup (IF ~FWithin(ev.massIn, ev.massOut, FAdd(Micro(2), FMulInt(PrecUnit(ev.prec), Len(shifts))))
               THEN {"mass_not_preserved"} ELSE {})
         (* independent of the library: the real mass of the input is the mass of the peptide the text denotes *)
         \cup (IF AllResolvable(A, TRUE) /\ ~FWithin(ev.massIn, SemMass(NeutralSem(A, TRUE, FALSE), TRUE), Micro(50))
               THEN {"mass_of_input_is_not_the_mass_of_the_peptide"} ELSE {})
         \cup (IF A = EmptyAnn(A.seq) /\ ev.res # ev.text THEN {"unmodified_peptide_changed"} ELSE {})
         \cup (IF ev.again # ev.res THEN {"second_call_on_the_same_object_differs"} ELSE {})
         \cup (IF ev.argText # ev.text THEN {"argument_object_changed"} ELSE {})
         (* a labile group made of formulas only weighs exactly what its atoms weigh: the written labile shift is that *)
         (* mass rounded to the precision asked for (one unit of the last decimal)                                     *)
         \cup (IF A.labile # <<>> /\ labs = <<>> /\ (\A q \in 1..Len(A.labile) : IsFormulaValue(A.labile[q].v))
                  /\ SemSum(A.labile).ok /\ out.labile # <<>>
                  /\ ~FWithin(FSum([ q \in 1..Len(out.labile) |-> FMulInt(DecimalFix(Body(out.labile[q].v)), out.labile[q].m) ]),
                              SemMass(SemSum(A.labile), TRUE), FAdd(PrecUnit(ev.prec), Nano(5)))
               THEN {"labile_shift_not_rounded_to_the_precision"} ELSE {})
         (* shifts sit on the residues and termini that were modified *)
         \cup (IF localised /\ \E p \in 0..(n - 1) : NonZeroSem(ModsAt(X, p)) /\ labs = <<>> /\ ModsAt(out, p) = <<>>
               THEN {"modified_residue_has_no_shift"} ELSE {})
         \cup (IF localised /\ \E p \in 1..(n - 2) : ModsAt(X, p) = <<>> /\ ~Labelled(p) /\ ModsAt(out, p) # <<>>
               THEN {"shift_on_unmodified_residue"} ELSE {})
         \cup (IF localised /\ labs = <<>> /\ X.nterm = <<>> /\ out.nterm # <<>> THEN {"shift_on_unmodified_nterm"} ELSE {})
         \cup (IF localised /\ labs = <<>> /\ X.cterm = <<>> /\ out.cterm # <<>> THEN {"shift_on_unmodified_cterm"} ELSE {})

Fails(ev) == CASE ev.k = "mass" -> MassFails(ev)
               [] ev.k = "condense" -> CondenseFails(ev)
               [] ev.k = "static" -> StaticFails(ev)
               [] ev.k = "label" -> LabelFails(ev)
               [] ev.k = "agree" -> AgreeFails(ev)
               [] ev.k = "estimate" -> EstimateFails(ev)
               [] ev.k = "rowagree" -> RowAgreeFails(ev)
               [] ev.k = "rowmass" -> RowFails(ev)
               [] OTHER -> {"unknown_event_kind"}
(* ---------------- named deviations (recorded findings) ---------------- *)
MassAgrees(ev, want, tol) ==
    LET z == EffZ(ev) IN
    IF ev.call = "mass" \/ z = 0 THEN FWithin(ev.res, want, tol)
    ELSE FWithin(FMulInt(ev.res, z), want, FMulInt(tol, IF z > 0 THEN z ELSE 0 - z))

(* C02_AdductElectronCount: see Mass!AdductTermExcessElectrons *)
Dev_C02_AdductElectronCount(ev) ==
    /\ ev.k = "mass" /\ ev.out = "ret" /\ ev.res2 = ev.res
    /\ AdductsExcessElectrons(EffAdducts(ev)) # 0
    /\ LET want == PrecursorMass(ev.A, EffZ(ev), EffAdducts(ev), ev.iso, ev.loss, ev.mono, FALSE)
           tol == FAdd(BaseTol(ev.mono), HalfUlp(ev.prec)) IN
       MassAgrees(ev, FAdd(want, FMulInt(Electron, AdductsExcessElectrons(EffAdducts(ev)))), tol)

(* C02_TabulatedMassRounding: the mass of a named vocabulary entry or of a glycan is taken from the bundled       *)
(* tables, whose values are rounded (Unimod: 6 decimals monoisotopic, 4 decimals average computed with other      *)
(* atomic weights; monosaccharide averages likewise).  Per tabulated unit the contribution drifts from the        *)
(* NIST-weight sum by up to 5e-7 Da (monoisotopic) / 4e-4 Da (average); with enough units the bound is exceeded.  *)
Dev_C02_TabulatedMassRounding(ev) ==
    /\ ev.k = "mass" /\ ev.out = "ret" /\ ev.res2 = ev.res
    /\ LET s == NeutralSem(ev.A, TRUE, FALSE)
           want == PrecursorMass(ev.A, EffZ(ev), EffAdducts(ev), ev.iso, ev.loss, ev.mono, FALSE)
           excess == FMulInt(Electron, AdductsExcessElectrons(EffAdducts(ev)))
           perUnit == IF ev.mono THEN Nano(500) ELSE Micro(400)
           tol == FAdd(FAdd(BaseTol(ev.mono), HalfUlp(ev.prec)), FMulInt(perUnit, s.sugars)) IN
       /\ s.sugars > 0
       /\ (MassAgrees(ev, want, tol)
           \/ ("C02_AdductElectronCount" \in Devs /\ MassAgrees(ev, FAdd(want, excess), tol)))

(* the same adduct defect seen from C03: mass() is (n-1)*q electrons heavier than the mass of comp() *)
AgreeAdducts(ev) == IF ev.adductsArg # "" THEN ev.adductsArg
                    ELSE IF Len(ev.A.adducts) > 0 THEN SubSeq(ev.A.adducts[1].v, 3, Len(ev.A.adducts[1].v)) ELSE ""
Dev_C03_AdductElectronCount(ev) ==
    /\ ev.k \in {"agree", "estimate"} /\ ev.out = "ret"
    /\ AdductsExcessElectrons(AgreeAdducts(ev)) # 0
    /\ LET mono == IF ev.k = "estimate" THEN TRUE ELSE ev.mono
           viaComp == FAdd(Comp8Mass(ev.comp, mono), IF ev.k = "estimate" THEN FZero ELSE ev.delta)
           tol == IF mono THEN Micro(100) ELSE FAdd(Micro(1000), Ppm5(ev.modMass)) IN
       FWithin(FSub(ev.massRes, FMulInt(Electron, AdductsExcessElectrons(AgreeAdducts(ev)))), viaComp, tol)

(* C03_AlternativePrecedence: for a modification written with alternatives ("+42.5|Acetyl", "Obs:+79.978|Phospho")  *)
(* mass() takes the FIRST alternative that has a mass, comp()/comp_mass() the first that has a composition - so     *)
(* when a numeric alternative precedes a named one the two calculators weigh different alternatives.               *)
(* Exactly: removing, per such modification, (first-alternative mass - composition-alternative mass) x multiplier   *)
(* from mass() restores the agreement.  Judged on terminal / residue modifications of the precursor.               *)
LocalMods(A) == A.nterm \o A.cterm \o FoldLeft(LAMBDA acc, e : acc \o e.mods, <<>>, A.internal)
AltGap(m, mono) == FMulInt(FSub(SemMass(Sem(m.v), mono), SemMass(SemPref(m.v), mono)), m.m)
Dev_C03_AlternativePrecedence(ev) ==
    /\ ev.k = "agree" /\ ev.out = "ret" /\ ev.ion = "p" /\ Comp8Resolvable(ev.comp, ev.mono)
    /\ LET ms == LocalMods(ev.A)
           gap == FSum([ q \in 1..Len(ms) |-> AltGap(ms[q], ev.mono) ])
           viaComp == FAdd(Comp8Mass(ev.comp, ev.mono), ev.delta)
           tol == IF ev.mono THEN Micro(100) ELSE FAdd(Micro(1000), Ppm5(ev.modMass)) IN
       /\ \E q \in 1..Len(ms) : Sem(ms[q].v) # SemPref(ms[q].v)
       /\ FWithin(FSub(ev.massRes, gap), viaComp, tol)

(* C18_TabulatedMassRounding: with a global isotope label mass() weighs every named modification by its composition *)
(* (exact atomic masses), while the shifts written by condense_to_mass_mods come from the 6-decimal tables           *)
(* (C02_TabulatedMassRounding: up to 5e-7 Da per tabulated unit): with enough named modifications the two masses     *)
(* differ by more than the rounding of the written shifts.  Exactly: only the mass clause fails, and it holds once    *)
(* 5e-7 per tabulated unit is allowed.                                                                                *)
Dev_C18_TabulatedMassRounding(ev) ==
    LET A == ev.A
        all == AllModsOf(A)
        units == FoldLeft(LAMBDA acc, m : acc + m.m * (1 + Sem(m.v).sugars), 0, all)
        shifts == AllModsOf(ev.parsed) IN
    /\ ev.k = "condense" /\ ev.out = "ret" /\ ev.parsedOk
    /\ CondenseFails(ev) = {"mass_not_preserved"}
    /\ A.isotope # <<>>
    /\ FWithin(ev.massIn, ev.massOut, FAdd(FAdd(Micro(2), FMulInt(PrecUnit(ev.prec), Len(shifts))), FMulInt(Nano(500), units)))

(* C18_PerResidueExtras: condense_to_mass_mods measures each residue's shift on a one-residue copy of the peptide *)
(* that still carries everything that is not a residue or explicit terminal modification: unknown-position and    *)
(* interval modifications, static rules for N-Term / C-Term, the charge with its carriers, and (for labels on H   *)
(* or O) the labelled atoms of the terminal water.  That extra E is therefore written onto EVERY residue.         *)
(* Exactly: residues, numeric-only and the terminal / labile shifts are right; there is one number E such that    *)
(* every residue's written shift is its own shift + E.                                                            *)
ShiftAt(out, p) == FSum([ q \in 1..Len(ModsAt(out, p)) |-> FMulInt(DecimalFix(Body(ModsAt(out, p)[q].v)), ModsAt(out, p)[q].m) ])
Dev_C18_PerResidueExtras(ev) ==
    LET A == ev.A  n == NRes(A)  out == ev.parsed
        rules == StaticRules(A)
        resRules == [ q \in 1..Len(rules) |-> [ rules[q] EXCEPT !.targets = SelectSeq(@, LAMBDA t : t \notin {"N-Term", "C-Term"}) ] ]
        X == CondenseStatic(A, resRules)
        labs == Labels(A)
        Own(p) == LET sm == SemSum(ModsAt(X, p))
                      base == Residue(A.seq[p + 1]) IN
                  FAdd(FAdd(SemMass(sm, TRUE), FSub(CompMass(ApplyLabels(base, labs), TRUE), CompMass(base, TRUE))),
                       (* the modifications of every interval overlapping the residue ride along with its one-residue copy *)
                       FoldLeft(LAMBDA acc, iv : IF iv.s <= p /\ p < iv.e THEN FAdd(acc, SemMass(SemSum(iv.mods), TRUE)) ELSE acc,
                                FZero, A.intervals))
        hasTermRule == \E q \in 1..Len(rules) : \E t \in SeqToSet(rules[q].targets) : t \in {"N-Term", "C-Term"}
        waterLabel == \E q \in 1..Len(labs) : LabelElement(labs[q]) \in {"H", "O"}
        E == FSub(ShiftAt(out, 0), Own(0))
        slack == FAdd(Micro(3), FMulInt(PrecUnit(ev.prec), 2)) IN
    /\ ev.k = "condense" /\ ev.out = "ret" /\ ev.parsedOk /\ n >= 1
    /\ (A.unknown # <<>> \/ \E q \in 1..Len(A.intervals) : A.intervals[q].mods # <<>>) \/ hasTermRule
         \/ A.charge # 0 \/ A.adducts # <<>> \/ waterLabel
    /\ out.seq = A.seq
    /\ \A q \in 1..Len(AllModsOf(out)) : Tag(AllModsOf(out)[q].v) \in {"i", "f"}
    /\ AllResolvable(A, TRUE)
    /\ \A p \in 0..(n - 1) : FWithin(ShiftAt(out, p), FAdd(Own(p), E), slack)

Dev(ev) == IF ev.k = "condense"
           THEN (IF "C18_TabulatedMassRounding" \in Devs /\ Dev_C18_TabulatedMassRounding(ev) THEN "C18_TabulatedMassRounding"
                 ELSE IF "C18_PerResidueExtras" \in Devs /\ Dev_C18_PerResidueExtras(ev) THEN "C18_PerResidueExtras" ELSE "")
           ELSE IF ev.k \in {"agree", "estimate"}
           THEN (IF "C03_AdductElectronCount" \in Devs /\ Dev_C03_AdductElectronCount(ev) THEN "C03_AdductElectronCount"
                 ELSE IF "C03_AlternativePrecedence" \in Devs /\ Dev_C03_AlternativePrecedence(ev) THEN "C03_AlternativePrecedence"
                 ELSE "")
           ELSE IF ev.k # "mass" THEN ""
           ELSE IF "C02_AdductElectronCount" \in Devs /\ Dev_C02_AdductElectronCount(ev) THEN "C02_AdductElectronCount"
           ELSE IF "C02_TabulatedMassRounding" \in Devs /\ Dev_C02_TabulatedMassRounding(ev) THEN "C02_TabulatedMassRounding"
           ELSE ""
(* what the specification expected, printed with a non-ok verdict *)
Detail(ev) == CASE ev.k \in {"agree", "rowagree"} /\ ev.out = "ret" /\ Comp8Resolvable(ev.comp, ev.mono) ->
                      <<"mass", ev.massRes, "viaComp", FAdd(Comp8Mass(ev.comp, ev.mono), ev.delta)>>
                [] ev.k = "estimate" /\ ev.out = "ret" /\ Comp8Resolvable(ev.comp, TRUE) ->
                      <<"mass", ev.massRes, "viaComp", Comp8Mass(ev.comp, TRUE)>>
                [] ev.k = "label" /\ ev.out = "ret" ->
                      <<"wantShift", FSub(SemMass(NeutralSem(ev.A, TRUE, ev.labelMods), ev.mono),
                                          SemMass(NeutralSem([ev.A EXCEPT !.isotope = <<>>], TRUE, FALSE), ev.mono)),
                        "gotShift", FSub(ev.labelled, ev.plain)>>
                [] ev.k = "static" /\ ev.out = "ret" -> <<"wantCondensed", Write(CondenseStatic(ev.A, StaticRules(ev.A)), FALSE)>>
                [] ev.k = "mass" /\ ev.text = Write(ev.A, FALSE) /\ AllResolvable(ev.A, ev.mono) ->
                      <<"want", PrecursorMass(ev.A, EffZ(ev), EffAdducts(ev), ev.iso, ev.loss, ev.mono, FALSE), "got", ev.res>>
                [] OTHER -> <<>>
Init == l = 1 /\ ResetCounters
Next == /\ l <= NEvents
        /\ LET f == Fails(Events[l]) IN RecordD(Events[l], MkVerdict(f, IF f = {} THEN "" ELSE Dev(Events[l])),
                                                IF f = {} THEN <<>> ELSE Detail(Events[l]))
        /\ l' = l + 1
Spec == Init /\ [][Next]_l
Post == PrintT(Totals) /\ TLCGet(1) + TLCGet(2) + TLCGet(3) = NEvents
==============================================================================
