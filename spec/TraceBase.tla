------------------------------ MODULE TraceBase ------------------------------
(* Shared plumbing of every Trace_* specification.                            *)
(* The trace file is {"devs": [enabled deviation names], "events": [ ... ]}.  *)
(* A trace spec consumes exactly one event per step and has TLC print one     *)
(*   <<"VERDICT", tid, "known:<dev>" | "violation", failing clauses>>        *)
(* line for every event that is not plainly allowed by the specification.     *)
EXTENDS Naturals, Integers, Sequences, FiniteSets, TLC, Json, IOUtils

TraceFile == JsonDeserialize(IOEnv.TRACE_FILE)
Events    == TraceFile.events
NEvents   == Len(Events)
Devs      == { TraceFile.devs[i] : i \in 1..Len(TraceFile.devs) }

SeqToSet(s) == { s[i] : i \in 1..Len(s) }
BagOfSeq(s) == [ x \in SeqToSet(s) |-> Cardinality({ i \in 1..Len(s) : s[i] = x }) ]

(* Registers: 1 = ok, 2 = explained by an enabled named deviation, 3 = violation *)
ResetCounters == TLCSet(1, 0) /\ TLCSet(2, 0) /\ TLCSet(3, 0)

(* v = <<"ok">> | <<"known:<d>", clauses>> | <<"violation", clauses>> *)
RecordD(ev, v, detail) ==
    IF v[1] = "ok" THEN TLCSet(1, TLCGet(1) + 1)
    ELSE /\ PrintT(<<"VERDICT", ev.tid, v[1], v[2], detail>>)
         /\ IF v[1] = "violation" THEN TLCSet(3, TLCGet(3) + 1) ELSE TLCSet(2, TLCGet(2) + 1)

Record(ev, v) == RecordD(ev, v, <<>>)

(* fails = set of failing clause names; dev = "" or the enabled deviation that explains the event *)
MkVerdict(fails, dev) ==
    IF fails = {} THEN <<"ok">>
    ELSE IF dev # "" THEN <<"known:" \o dev, fails>>
    ELSE <<"violation", fails>>

Totals == <<"TOTAL", NEvents, TLCGet(1), TLCGet(2), TLCGet(3)>>
==============================================================================
