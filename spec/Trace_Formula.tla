---------------------------- MODULE Trace_Formula ----------------------------
(* Trace validation for C15: chemical and glycan formulas survive a           *)
(* write/parse round trip and add linearly.                                   *)
(* Compositions travel as sequences of <<symbol, countE4>> (count * 10^4).    *)
EXTENDS TraceBase, Chem
VARIABLE l

Comp(ps) == CompFromPairs([ q \in 1..Len(ps) |-> <<ps[q][1], ps[q][2]>> ])

(* k = "formula_rt": write_chem_formula(comp, sep, hill) = ev.text; parse_chem_formula(text, sep) = ev.parsed;  *)
(* ev.massText / ev.massComp = chem_mass of the string and of the composition                                    *)
FormulaRtFails(ev) ==
    LET c == Comp(ev.comp) IN
    IF ev.out # "ret" THEN {"raised_" \o ev.out}
    ELSE (IF Comp(ev.parsed) # c THEN {"round_trip_changed_the_composition"} ELSE {})
         \cup (IF \E q \in 1..Len(ev.parsed) : ev.parsed[q][2] = 0 THEN {"round_trip_kept_a_zero_count_element"} ELSE {})
         \cup (IF ev.sep = "" /\ (~ParseFormula(ev.text)[1] \/ ParseFormula(ev.text)[2] # c)
               THEN {"written_text_does_not_denote_the_composition"} ELSE {})
         \cup (IF ev.massOk /\ ~FWithin(ev.massText, ev.massComp, Nano(20)) THEN {"mass_of_string_differs_from_mass_of_composition"} ELSE {})
         \cup (IF ev.massOk /\ Resolvable(c, TRUE) /\ ~FWithin(ev.massComp, CompMass(c, TRUE), Micro(50))
               THEN {"mass_of_composition"} ELSE {})

(* k = "formula_add": parse(t1 \o t2) = parse(t1) + parse(t2), and each parse is what the notation denotes *)
FormulaAddFails(ev) ==
    IF ev.out # "ret" THEN {"raised_" \o ev.out}
    ELSE (IF Comp(ev.c12) # CAdd(Comp(ev.c1), Comp(ev.c2)) THEN {"parse_of_concatenation_is_not_the_sum"} ELSE {})
         \cup (IF ~ParseFormula(ev.t1)[1] \/ ParseFormula(ev.t1)[2] # Comp(ev.c1) THEN {"parse_differs_from_notation_t1"} ELSE {})
         \cup (IF ~ParseFormula(ev.t2)[1] \/ ParseFormula(ev.t2)[2] # Comp(ev.c2) THEN {"parse_differs_from_notation_t2"} ELSE {})

(* ------------------------------ glycans -------------------------------- *)
(* ev.table = <<[name, syns, formula]>> (raw rows of the bundled monosaccharide table)                           *)
AllNames(ev) == UNION { {ev.table[q].name} \cup SeqToSet(ev.table[q].syns) : q \in 1..Len(ev.table) }
CountRun == Digits \cup {"+", "-", "."}
StartsAt(t, i, w) == i + Len(w) - 1 <= Len(t) /\ SubSeq(t, i, i + Len(w) - 1) = w
(* number of ways to read t[i..] as (Name Count?)*, capped at 2 *)
RECURSIVE Parses(_, _, _), FoldSetLocal(_, _, _, _)
Parses(ev, t, i) ==
    IF i > Len(t) THEN 1
    ELSE LET opts == { w \in AllNames(ev) : StartsAt(t, i, w) }
             tot == LET S == opts IN
                    FoldSetLocal(ev, t, i, S) IN
         IF tot > 2 THEN 2 ELSE tot
FoldSetLocal(ev, t, i, S) ==
    IF S = {} THEN 0
    ELSE LET w == CHOOSE x \in S : TRUE
             j == SkipWhile(t, i + Len(w), CountRun) IN
         Parses(ev, t, j) + FoldSetLocal(ev, t, i, S \ {w})
Unambiguous(ev, t) == Parses(ev, t, 1) = 1

RowOf(ev, nm) == CHOOSE q \in 1..Len(ev.table) : ev.table[q].name = nm \/ nm \in SeqToSet(ev.table[q].syns)
SugarComp(ev, nm) == ParseFormula(ev.table[RowOf(ev, nm)].formula)[2]
(* count-weighted sum over the monosaccharides; counts E4 *)
GlycanSum(ev, ps) == CSum([ q \in 1..Len(ps) |->
                               [ s \in DOMAIN SugarComp(ev, ps[q][1]) |-> (SugarComp(ev, ps[q][1])[s] \div E4) * ps[q][2] ] ])

GlycanFails(ev) ==
    IF ev.out # "ret" THEN {"raised_" \o ev.out}
    ELSE (IF Unambiguous(ev, ev.text) /\ ev.parseOut # "ret" THEN {"unambiguous_glycan_text_rejected_" \o ev.parseOut} ELSE {})
         \cup (IF Unambiguous(ev, ev.text) /\ ev.parseOut = "ret" /\ Comp(ev.parsed) # Comp(ev.dict)
               THEN {"glycan_round_trip_changed_the_counts"} ELSE {})
         \cup (IF Clean(Comp(ev.comp)) # Clean(GlycanSum(ev, ev.dict)) THEN {"glycan_composition_is_not_the_weighted_sum"} ELSE {})
         \cup (IF Clean(Comp(ev.compSyn)) # Clean(Comp(ev.comp)) THEN {"synonyms_give_another_composition"} ELSE {})
         \cup (IF ~FWithin(ev.massSyn, ev.mass, Nano(20)) THEN {"synonyms_give_another_mass"} ELSE {})
         \cup (IF Resolvable(Clean(GlycanSum(ev, ev.dict)), TRUE) /\ ~FWithin(ev.mass, CompMass(Clean(GlycanSum(ev, ev.dict)), TRUE), Micro(200))
               THEN {"glycan_mass_is_not_the_weighted_sum"} ELSE {})

Fails(ev) == CASE ev.k = "formula_rt" -> FormulaRtFails(ev)
               [] ev.k = "formula_add" -> FormulaAddFails(ev)
               [] ev.k = "glycan" -> GlycanFails(ev)
               [] OTHER -> {"unknown_event_kind"}
Dev(ev) == ""
Init == l = 1 /\ ResetCounters
Next == /\ l <= NEvents
        /\ LET f == Fails(Events[l]) IN Record(Events[l], MkVerdict(f, IF f = {} THEN "" ELSE Dev(Events[l])))
        /\ l' = l + 1
Spec == Init /\ [][Next]_l
Post == PrintT(Totals) /\ TLCGet(1) + TLCGet(2) + TLCGet(3) = NEvents
==============================================================================
