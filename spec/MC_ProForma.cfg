SPECIFICATION Spec
CONSTANTS
  MaxLen = 2
  MaxMods = 1
INVARIANT LawEqualReflexive
INVARIANT LawStrip
INVARIANT LawPlusOnlyAddsPlus
INVARIANT LawReverseInvolution
INVARIANT LawShiftInverse
INVARIANT LawShiftByLength
INVARIANT LawReorderKeepsResidueBag
INVARIANT LawSliceWhole
INVARIANT LawSliceCompose
INVARIANT LawPiecesConcat
INVARIANT LawParseInvertsWrite
INVARIANT LawParseInvertsMulti
POSTCONDITION EmitCases
CHECK_DEADLOCK FALSE
