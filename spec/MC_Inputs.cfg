SPECIFICATION Spec
INVARIANT Idempotent
INVARIANT Embedding
INVARIANT FromLeaves
CHECK_DEADLOCK FALSE
