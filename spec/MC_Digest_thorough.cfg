SPECIFICATION Spec
CONSTANTS
  MaxN = 6
  MaxMC = 4
INVARIANT Refines
INVARIANT NoDuplicates
INVARIANT ValuesCountSites
INVARIANT RefLaws
CHECK_DEADLOCK FALSE
