SPECIFICATION Spec
POSTCONDITION Post
CHECK_DEADLOCK FALSE
