SPECIFICATION Spec
CONSTANTS
  MaxN = 4
  MaxMC = 2
INVARIANT Refines
INVARIANT NoDuplicates
INVARIANT ValuesCountSites
INVARIANT RefLaws
CHECK_DEADLOCK FALSE
