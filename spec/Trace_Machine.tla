---------------------------- MODULE Trace_Machine ----------------------------
(* Conformance of the parser machine (ParserMachine.tla) with the real        *)
(* parser: every event is a batch of strings with the real outcome of         *)
(* parse(); TLC runs the machine on each string and reports the strings on    *)
(* which machine and code disagree.  A disagreement is NOT a property         *)
(* violation (C09 does not say which malformed strings are rejected): it is   *)
(* printed as <<"DIVERGENCE", ...>> and recorded in the evidence.             *)
EXTENDS TraceBase, ParserMachine
VARIABLE l

Same(real, model) ==
    /\ real.cls = model.cls
    /\ real.cls = "accept" => /\ Len(real.chains) = Len(model.chains)
                              /\ \A k \in 1..Len(real.chains) : Diff(real.chains[k], model.chains[k]) = {}
                              /\ real.links = model.links

Diverging(ev) == { k \in 1..Len(ev.strings) : ~Same(ev.outs[k], Outcome(ev.strings[k])) }

Init == l = 1 /\ ResetCounters
Next == /\ l <= NEvents
        /\ LET d == Diverging(Events[l]) IN
           /\ \A k \in d : PrintT(<<"OUT", "DIVERGENCE", Events[l].strings[k], Outcome(Events[l].strings[k]).cls, Events[l].outs[k].cls>>)
           /\ Record(Events[l], <<"ok">>)
        /\ l' = l + 1
Spec == Init /\ [][Next]_l
Post == PrintT(Totals) /\ TLCGet(1) + TLCGet(2) + TLCGet(3) = NEvents
==============================================================================
