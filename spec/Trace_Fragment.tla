--------------------------- MODULE Trace_Fragment ----------------------------
(* Trace validation for C05 (ion-series chemistry) and C04 (fragment          *)
(* enumeration).  Events are recorded calls of the real fragment()/mass().    *)
EXTENDS TraceBase, Fragment, ProFormaText
VARIABLE l

Pre(p, S) == { p \o x : x \in S }
Rel == Micro(10)                                  \* 1e-5 Da for relations between recorded values
Abs(mono) == IF mono THEN Micro(10) ELSE Micro(2000)

(* ------------------------------- C05 ---------------------------------- *)
(* ev.b / ev.a / ev.c : per prefix end e = 1..n the masses for charge 1..4                              *)
(* ev.y / ev.x / ev.z : per suffix start s = 0..n-1 (index s+1)                                        *)
(* ev.imm: per residue i = 0..n-1; ev.internal: records [t, s, e, m] (charge 1); ev.M neutral mass      *)
SeriesFails(ev) ==
    LET A == ev.A  n == NRes(A)  mono == ev.mono IN
    IF ev.out # "ret" THEN {"raised_" \o ev.out}
    ELSE IF ev.bad # <<>> THEN {"ion_missing_or_duplicated"}
    ELSE
    (* the number and label an ion carries are those of its span *)
    (IF \E q \in 1..Len(ev.labels) : LET f == ev.labels[q] IN
           f.num # NumberText(f.t, n, f.s, f.e) \/ f.label # LabelText(f.t, f.z, NumberText(f.t, n, f.s, f.e), "", 0)
     THEN {"ion_number_or_label_is_not_that_of_its_span"} ELSE {}) \cup
    (* b_i + y_(n-i) = M + 2 protons *)
    (IF \E i \in 1..(n - 1) : ~FWithin(FAdd(ev.b[i][1], ev.y[i + 1][1]), FAdd(ev.M, FMulInt(Proton, 2)), Rel)
        THEN {"b_plus_y_is_not_M_plus_2_protons"} ELSE {})
    \cup (IF \E e \in 1..n : ~FWithin(ev.a[e][1], FAdd(ev.b[e][1], OffA(mono)), Rel) THEN {"a_is_not_b_minus_CO"} ELSE {})
    \cup (IF \E e \in 1..n : ~FWithin(ev.c[e][1], FAdd(ev.b[e][1], OffC(mono)), Rel) THEN {"c_is_not_b_plus_NH3"} ELSE {})
    \cup (IF \E s \in 1..n : ~FWithin(ev.x[s][1], FAdd(ev.y[s][1], OffX(mono)), Rel) THEN {"x_is_not_y_plus_CO_minus_H2"} ELSE {})
    \cup (IF \E s \in 1..n : ~FWithin(ev.z[s][1], FAdd(ev.y[s][1], OffZ(mono)), Rel) THEN {"z_is_not_y_minus_NH3"} ELSE {})
    (* absolute values: residues of the span with their own modifications, termini only when contained *)
    \cup (IF \E e \in 1..n : ~FWithin(ev.b[e][1], BIon(A, e, mono), Abs(mono)) THEN {"b_ion_mass"} ELSE {})
    \cup (IF \E s \in 0..(n - 1) : ~FWithin(ev.y[s + 1][1], YIon(A, s, mono), Abs(mono)) THEN {"y_ion_mass"} ELSE {})
    \cup (IF ~FWithin(ev.M, FAdd(SpanMass(A, 0, n, mono), CompMass(Water, mono)), Abs(mono)) THEN {"neutral_mass"} ELSE {})
    (* higher charge states add one proton each *)
    \cup (IF \E t \in {"a", "b", "c", "x", "y", "z"}, i \in 1..n, q \in 2..4 :
              ~FWithin(ev[t][i][q], FAdd(ev[t][i][1], FMulInt(Proton, q - 1)), Rel)
          THEN {"charge_state_does_not_add_a_proton"} ELSE {})
    (* immonium = residue - CO + proton (terminal residues only judged when that terminus is unmodified) *)
    \cup (IF \E i \in 0..(n - 1) : /\ ~(i = 0 /\ A.nterm # <<>>) /\ ~(i = n - 1 /\ A.cterm # <<>>)
                                   /\ ~FWithin(ev.imm[i + 1][1], Immonium(A, i, mono), Abs(mono))
          THEN {"immonium_mass"} ELSE {})
    \cup (IF \E i \in 1..n : ~FWithin(ev.imm[i][2], FAdd(ev.imm[i][1], Proton), Rel) THEN {"immonium_charge_2"} ELSE {})
    (* internal ions: by = span + proton; the a/c end and x/z start offsets applied to the span *)
    \cup UNION { LET f == ev.internal[q] IN
                 IF f.t = "by" THEN (IF ~FWithin(f.m, BYInternal(A, f.s, f.e, mono), Abs(mono)) THEN {"internal_by_mass"} ELSE {})
                 ELSE {} : q \in 1..Len(ev.internal) }
    \cup UNION { LET f == ev.internal[q]
                     g == ev.internal[p] IN
                 IF f.s = g.s /\ f.e = g.e
                 THEN (IF f.t = "ay" /\ g.t = "by" /\ ~FWithin(f.m, FAdd(g.m, OffA(mono)), Rel) THEN {"internal_ay_is_not_by_minus_CO"} ELSE {})
                      \cup (IF f.t = "cy" /\ g.t = "by" /\ ~FWithin(f.m, FAdd(g.m, OffC(mono)), Rel) THEN {"internal_cy_is_not_by_plus_NH3"} ELSE {})
                      \cup (IF f.t = "cx" /\ g.t = "cy" /\ ~FWithin(f.m, FAdd(g.m, OffX(mono)), Rel) THEN {"internal_cx_is_not_cy_plus_CO_minus_H2"} ELSE {})
                      \cup (IF f.t = "cz" /\ g.t = "cy" /\ ~FWithin(f.m, FAdd(g.m, OffZ(mono)), Rel) THEN {"internal_cz_is_not_cy_minus_NH3"} ELSE {})
                      \cup (IF f.t = "ax" /\ g.t = "bx" /\ ~FWithin(f.m, FAdd(g.m, OffA(mono)), Rel) THEN {"internal_ax_is_not_bx_minus_CO"} ELSE {})
                      \cup (IF f.t = "az" /\ g.t = "bz" /\ ~FWithin(f.m, FAdd(g.m, OffA(mono)), Rel) THEN {"internal_az_is_not_bz_minus_CO"} ELSE {})
                      \cup (IF f.t = "bx" /\ g.t = "bz" /\ ~FWithin(f.m, FAdd(g.m, FSub(OffX(mono), OffZ(mono))), Rel) THEN {"internal_bx_minus_bz_is_not_x_minus_z"} ELSE {})
                 ELSE {} : <<q, p>> \in (1..Len(ev.internal)) \X (1..Len(ev.internal)) }

(* ------------------------------- C04 ---------------------------------- *)
(* ev.frags: the returned Fragment objects, projected:                                                         *)
(*   [t, s, e, z, iso, loss6 (1e-6 Da, integer), lossText, mass, mz, recMass, recMz, seq, label, num]          *)
(* recMass / recMz = the real mass()/mz() of the fragment's own sequence with its ion type, charge, isotope,    *)
(* loss, mode and precision.  ev.masses, ev.mzs, ev.labels, ev.massLabels, ev.mzLabels = the other return       *)
(* types; ev.fragmenter = the cached Fragmenter's list (projected like frags, keys and masses only).            *)
KeyOf(f) == <<f.t, f.s, f.e, f.z, f.iso, f.loss6>>
RulesOf(ev) == [ q \in 1..Len(ev.rules) |-> [cls |-> SeqToSet(ev.rules[q].cls), val |-> ev.rules[q].val6, edge |-> ev.rules[q].edge] ]
(* a Fix value lies on the grid of p decimals (p <= 8) when its nano part is within 2e-9 of a multiple of 10^(9-p) *)
OffGrid(m, p) == LET unit == Pow10(9 - p)  r == m[2] % unit IN p <= 8 /\ r > 2 /\ unit - r > 2
HalfUnit(prec) == FAdd(Nano(100), IF prec = 0 THEN <<0, 500000000>> ELSE <<0, 5 * Pow10(8 - prec)>>)
PrecSlack(prec) == IF prec < 0 THEN Micro(1) ELSE FAdd(Micro(1), IF prec = 0 THEN FInt(1) ELSE <<0, Pow10(9 - prec)>>)

FragmentFails(ev) ==
    IF ev.out # "ret" THEN {"raised_" \o ev.out}
    ELSE
    LET A == ev.A  n == NRes(A)
        want == ExpectedKeys(A.seq, SeqToSet(ev.types), SeqToSet(ev.charges), SeqToSet(ev.isotopes), RulesOf(ev), ev.maxLosses)
        keys == [ q \in 1..Len(ev.frags) |-> KeyOf(ev.frags[q]) ]
        got == SeqToSet(keys)
        slack == PrecSlack(ev.prec)
        AC == CondenseStatic(A, StaticRules(A))
        texts == [ sp \in { <<ev.frags[q].s, ev.frags[q].e>> : q \in 1..Len(ev.frags) } |->
                     IF sp[1] >= 0 /\ sp[1] < sp[2] /\ sp[2] <= n THEN Write(Slice(AC, sp[1], sp[2]), FALSE) ELSE "" ] IN
    (IF want \ got # {} THEN {"ion_missing"} ELSE {})
    \cup (IF got \ want # {} THEN {"ion_not_requested_or_not_applicable"} ELSE {})
    \cup (IF Cardinality(got) # Len(keys) THEN {"ion_returned_twice"} ELSE {})
    (* each ion carries the modifications that sit on its residues and termini: global static rules are       *)
    (* written on their targets (an N-Term / C-Term rule only reaches ions containing that terminus)          *)
    \cup (IF \E q \in 1..Len(ev.frags) : LET f == ev.frags[q] IN f.s >= 0 /\ f.s < f.e /\ f.e <= n
                                              /\ f.seq # texts[<<f.s, f.e>>]
          THEN {"ion_sequence_is_not_the_slice_with_its_modifications"} ELSE {})
    \cup (IF \E q \in 1..Len(ev.frags) : LET f == ev.frags[q] IN f.t \in AllTypes /\ f.num # NumberText(f.t, n, f.s, f.e)
          THEN {"ion_number"} ELSE {})
    \cup (IF \E q \in 1..Len(ev.frags) : LET f == ev.frags[q] IN f.t \in AllTypes /\
                f.label # LabelText(f.t, f.z, NumberText(f.t, n, f.s, f.e), IF f.loss6 = 0 THEN "" ELSE f.lossText, f.iso)
          THEN {"ion_label"} ELSE {})
    \cup (IF \E q \in 1..Len(ev.frags) : ~FWithin(ev.frags[q].mass, ev.frags[q].recMass, slack)
          THEN {"ion_mass_differs_from_mass_calculator"} ELSE {})
    \cup (IF \E q \in 1..Len(ev.frags) : ~FWithin(ev.frags[q].mz, ev.frags[q].recMz, slack)
          THEN {"ion_mz_differs_from_mass_calculator"} ELSE {})
    (* with a precision p the reported values are the full-precision values of the mass calculator rounded to p        *)
    (* decimals: never further than half a unit of the last place (+1e-7 for floating-point noise at a tie)            *)
    \cup (IF ev.prec >= 0 /\ \E q \in 1..Len(ev.frags) : ~FWithin(ev.frags[q].mass, ev.frags[q].fullMass, HalfUnit(ev.prec))
          THEN {"ion_mass_is_not_the_rounded_full_precision_mass"} ELSE {})
    \cup (IF ev.prec >= 0 /\ \E q \in 1..Len(ev.frags) : ~FWithin(ev.frags[q].mz, ev.frags[q].fullMz, HalfUnit(ev.prec))
          THEN {"ion_mz_is_not_the_rounded_full_precision_mz"} ELSE {})
    (* ... and they ARE rounded: multiples of 10^-p *)
    \cup (IF ev.prec >= 0 /\ \E q \in 1..Len(ev.frags) : OffGrid(ev.frags[q].mass, ev.prec) \/ OffGrid(ev.frags[q].mz, ev.prec)
          THEN {"ion_mass_or_mz_not_rounded_to_the_precision"} ELSE {})
    (* the other return types are projections of the same list (compared as multisets) *)
    \cup (IF BagOfSeq(ev.masses) # BagOfSeq([ q \in 1..Len(ev.frags) |-> ev.frags[q].mass ]) THEN {"return_type_mass"} ELSE {})
    \cup (IF BagOfSeq(ev.mzs) # BagOfSeq([ q \in 1..Len(ev.frags) |-> ev.frags[q].mz ]) THEN {"return_type_mz"} ELSE {})
    \cup (IF BagOfSeq(ev.labels) # BagOfSeq([ q \in 1..Len(ev.frags) |-> ev.frags[q].label ]) THEN {"return_type_label"} ELSE {})
    \cup (IF BagOfSeq(ev.massLabels) # BagOfSeq([ q \in 1..Len(ev.frags) |-> <<ev.frags[q].mass, ev.frags[q].label>> ])
          THEN {"return_type_mass_label"} ELSE {})
    \cup (IF BagOfSeq(ev.mzLabels) # BagOfSeq([ q \in 1..Len(ev.frags) |-> <<ev.frags[q].mz, ev.frags[q].label>> ])
          THEN {"return_type_mz_label"} ELSE {})
    \cup (IF BagOfSeq(ev.fragmenter) # BagOfSeq([ q \in 1..Len(ev.frags) |-> <<KeyOf(ev.frags[q]), ev.frags[q].mass>> ])
          THEN {"fragmenter_object_differs"} ELSE {})

Fails(ev) == CASE ev.k = "series" -> SeriesFails(ev)
               [] ev.k = "fragment" -> FragmentFails(ev)
               [] OTHER -> {"unknown_event_kind"}
(* Named deviation C05_AverageIonHydrogen: in average mode the implementation ionises a fragment with a hydrogen  *)
(* of average mass minus an electron (1.00739 Da) instead of a proton (1.00728 Da), so every singly charged        *)
(* fragment is 1.15e-4 Da heavier and b_i + y_(n-i) exceeds M + 2 protons by exactly twice that amount.            *)
IonHExcess == FSub(FSub(AvgMass("H"), Electron), Proton)
Dev_C05_AverageIonHydrogen(ev) ==
    /\ ev.k = "series" /\ ev.out = "ret" /\ ~ev.mono /\ ev.bad = <<>>
    /\ SeriesFails(ev) = {"b_plus_y_is_not_M_plus_2_protons"}
    /\ \A i \in 1..(NRes(ev.A) - 1) :
          FWithin(FAdd(ev.b[i][1], ev.y[i + 1][1]), FAdd(FAdd(ev.M, FMulInt(Proton, 2)), FMulInt(IonHExcess, 2)), Rel)
Dev(ev) == IF "C05_AverageIonHydrogen" \in Devs /\ Dev_C05_AverageIonHydrogen(ev) THEN "C05_AverageIonHydrogen" ELSE ""
Init == l = 1 /\ ResetCounters
Next == /\ l <= NEvents
        /\ LET f == Fails(Events[l]) IN Record(Events[l], MkVerdict(f, IF f = {} THEN "" ELSE Dev(Events[l])))
        /\ l' = l + 1
Spec == Init /\ [][Next]_l
Post == PrintT(Totals) /\ TLCGet(1) + TLCGet(2) + TLCGet(3) = NEvents
==============================================================================
