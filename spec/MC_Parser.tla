------------------------------ MODULE MC_Parser ------------------------------
(* The parser machine as a state machine over every string of up to MaxTok    *)
(* tokens: it terminates (every step consumes input or changes phase),        *)
(* never reads past the end, and whatever it accepts is well formed and can   *)
(* be written again.                                                          *)
EXTENDS ParserMachine, TLC
CONSTANT MaxTok
VARIABLE s
Tokens == {"P", "B", "[", "]", "(", ")", "{", "}", "<", ">", "?", "-", "+", "/", "^", "@", "#", "|", ":", ",", ".", "1",
           "Ox", "\\", " "}
RECURSIVE Strings(_)
Strings(k) == IF k = 0 THEN {""} ELSE LET S == Strings(k - 1) IN S \cup { x \o t : x \in { y \in S : TRUE }, t \in Tokens }
Init == s \in { InitState(t) : t \in Strings(MaxTok) }
Next == ~Terminal(s) /\ s' = Step(s)
Spec == Init /\ [][Next]_s

Measure(st) == <<Len(st.txt) + 1 - st.pos, CASE st.phase = "start" -> 3 [] st.phase = "middle" -> 2 [] st.phase = "end" -> 1 [] OTHER -> 0>>
(* every step moves forward: the cursor advances, or the phase does, or a chain is finished *)
Progress == [][ s'.pos > s.pos \/ s'.phase # s.phase \/ Len(s'.chains) > Len(s.chains) ]_s
InBounds == s.pos >= 1 /\ s.pos <= Len(s.txt) + 1
AcceptedIsWellFormed ==
    s.phase = "accept" => \A k \in 1..Len(s.chains) :
        LET X == s.chains[k] IN
        /\ \A q \in 1..Len(X.intervals) : X.intervals[q].s <= X.intervals[q].e /\ X.intervals[q].e <= NRes(X)
        /\ \A q \in 1..Len(X.internal) : (X.internal[q].i >= -1 /\ X.internal[q].i < NRes(X)) \/ NRes(X) = 0
        /\ Len(Write(X, FALSE)) >= NRes(X)
==============================================================================
