------------------------------ MODULE MC_Session -----------------------------
(* Stage A for C08: the session machine on a small annotation space.          *)
(* Every history of up to three calls: queries are stuttering steps (the      *)
(* frame condition the documentation promises: "parse once, reuse"), editors  *)
(* have exactly their stated effect and keep the annotation well formed, and  *)
(* the state after a history depends only on the editors in it.               *)
(* With Deviant = TRUE the model instead contains the implementation-shaped   *)
(* "split" that removes the labile modifications from the caller's object;    *)
(* TLC then returns the shortest history that breaks history freedom.         *)
EXTENDS Session, ProFormaText, TLC, Json, IOUtils, FiniteSetsExt
CONSTANT Deviant
VARIABLES s, hist
vars == <<s, hist>>
V == Mod("s:Oxidation", 1)
Seeds == { [ EmptyAnn(<<"P", "E", "K">>) EXCEPT !.labile = lb, !.nterm = nt, !.charge = z,
                                              !.internal = InternalFrom([ i \in {1} |-> r1 ]) ]
           : lb \in {<<>>, <<V>>}, nt \in {<<>>, <<V>>}, z \in {0, 2}, r1 \in {<<>>, <<V>>} }
Calls == {"mass", "m_split", "fragment_b", "m_copy"} \cup (EditorCalls \ {"condense_static_inplace"})
Init == /\ s \in { [obj |-> [ann |-> A, has |-> <<>>], aux |-> "", glob |-> [rng |-> 0, voc |-> 0]] : A \in Seeds }
        /\ hist = <<>>
DeviantStep(st, c) == IF Deviant /\ c \in {"m_split", "fragment_b"} THEN [ st EXCEPT !.obj.ann.labile = <<>> ] ELSE Step(st, c)
Do(c) == /\ Len(hist) < 3 /\ hist' = Append(hist, c) /\ s' = DeviantStep(s, c)
Next == \E c \in Calls : Do(c)
Spec == Init /\ [][Next]_vars
(* queries never change the state *)
NoMutation == [][ \A c \in QueryCalls : (Len(hist') > Len(hist) /\ hist'[Len(hist')] = c) => s' = s ]_vars
(* the state only depends on the editors of the history *)
RECURSIVE Replay(_, _)
Replay(st, h) == IF h = <<>> THEN st ELSE Replay(IF Head(h) \in EditorCalls THEN Step(st, Head(h)) ELSE st, Tail(h))
WellFormedAlways == WellFormed(s.obj.ann)
(* Stage B: every complete behaviour of the machine (seed annotation written as notation text + its three calls) is   *)
(* written out; the harness steps each one through the real library and Trace_Session judges every step (C08 driver). *)
(* Every call is enabled in every state, so the behaviours are exactly Seeds x Calls^3 (checked: AllEnabled).         *)
AllEnabled == Len(hist) < 3 => \A c \in Calls : ENABLED Do(c)
EmitBehaviours == ndJsonSerialize(IOEnv.OUT_FILE,
                      SetToSeq({ [seed |-> Write(A, FALSE), hist |-> h] : A \in Seeds, h \in [1..3 -> Calls] }))
==============================================================================
