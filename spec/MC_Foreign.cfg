SPECIFICATION Spec
CONSTANT Full = FALSE
INVARIANT LawIp2
INVARIANT LawDiann
INVARIANT LawCasanovo
POSTCONDITION Emit
CHECK_DEADLOCK FALSE
