------------------------------ MODULE Notations ------------------------------
(* The small notations inside a ProForma string, as the machines the library  *)
(* runs over them (not named by a listed property on their own; C02 / C12     *)
(* reach them through mass() and the global rules):                           *)
(*   - one ion of a charge-adduct list ("+2Na+", "-H+", "+Ca2+", "+e-"):      *)
(*     three scans - count, symbol, charge - one action per character;        *)
(*   - a list of global isotope labels -> element |-> label (later wins,      *)
(*     D and T are hydrogen);                                                  *)
(*   - global rules "[m1][m2]@X,Y" -> target |-> modifications, and back.     *)
(* Mass!Adduct is the REFERENCE reading of an ion (what it weighs);           *)
(* MC_Notations checks that the machine and the reference agree on every      *)
(* well-formed ion, Trace_Notations compares the real functions with the      *)
(* machine on every short text.                                               *)
EXTENDS Mass

Letters == Uppers \cup Lowers
Signs == {"+", "-"}

(* ---- _pop_ion_count: signs and digits up to the first other character; a '-' anywhere makes it negative ---- *)
CountStop(t) == SkipWhile(t, 1, Signs \cup Digits)                                  \* index of the first other character
CountOf(t) == LET stop == CountStop(t)
                  ds == SelectSeq([ k \in 1..(stop - 1) |-> At(t, k) ], LAMBDA c : c \in Digits)
                  neg == \E k \in 1..(stop - 1) : At(t, k) = "-"
                  n == IF Len(ds) = 0 THEN 1 ELSE FoldLeft(LAMBDA acc, c : acc * 10 + DigitVal(c), 0, ds) IN
              IF neg THEN 0 - n ELSE n
(* ---- _pop_ion_symbol: everything up to the next digit or sign ---- *)
IonSymbolEnd(t, from) == SkipWhile(t, from, { At(t, k) : k \in from..Len(t) } \ (Digits \cup Signs))
(* ---- _pop_ion_charge: '-' makes it negative, '+' is skipped, everything else must be the digits of the number ---- *)
ChargeOf(tail) == LET rest == SelectSeq([ k \in 1..Len(tail) |-> At(tail, k) ], LAMBDA c : c \notin Signs)
                      neg == \E k \in 1..Len(tail) : At(tail, k) = "-" IN
                  IF \E k \in 1..Len(rest) : rest[k] \notin Digits THEN [ok |-> FALSE, q |-> 0]
                  ELSE LET n == IF Len(rest) = 0 THEN 1 ELSE FoldLeft(LAMBDA acc, c : acc * 10 + DigitVal(c), 0, rest) IN
                       [ok |-> TRUE, q |-> IF neg THEN 0 - n ELSE n]

(* parse_ion_elements: [cls |-> "ret", cnt, sym, q] or [cls |-> "ValueError"] *)
Bad == [cls |-> "ValueError", cnt |-> 0, sym |-> "", q |-> 0]
IonElements(t) ==
    IF ~\E k \in 1..Len(t) : At(t, k) \in Letters THEN Bad                          \* no letter at all
    ELSE LET stop == CountStop(t)
             e == IonSymbolEnd(t, stop)
             ch == ChargeOf(SubSeq(t, e, Len(t))) IN
         IF ~ch.ok THEN Bad
         ELSE [cls |-> "ret", cnt |-> CountOf(t), sym |-> SubSeq(t, stop, e - 1), q |-> ch.q]

(* a well-formed ion: sign? digits? Symbol digits? sign  (what the ProForma text means by an adduct) *)
WellFormedIon(t) ==
    LET s == IF At(t, 1) \in Signs THEN 2 ELSE 1
        d == SkipWhile(t, s, Digits)
        e == SkipWhile(t, d, Letters)
        q == SkipWhile(t, e, Digits) IN
    /\ e > d /\ q = Len(t) /\ At(t, q) \in Signs

(* ---- parse_isotope_mods: labels in order, the label without its digits is the element, later labels win ---- *)
StripDigits(lab) == FoldLeft(LAMBDA acc, k : IF At(lab, k) \in Digits THEN acc ELSE acc \o At(lab, k), "", [ k \in 1..Len(lab) |-> k ])
IsotopeMap(labs) ==
    LET raw == FoldLeft(LAMBDA m, lab : [ x \in DOMAIN m \cup {StripDigits(lab)} |-> IF x = StripDigits(lab) THEN lab ELSE m[x] ],
                        <<>>, labs)
        d == IF "D" \in DOMAIN raw THEN [ x \in (DOMAIN raw \ {"D"}) \cup {"H"} |-> IF x = "H" THEN raw["D"] ELSE raw[x] ] ELSE raw
        t == IF "T" \in DOMAIN d THEN [ x \in (DOMAIN d \ {"T"}) \cup {"H"} |-> IF x = "H" THEN d["T"] ELSE d[x] ] ELSE d IN
    t
KnownLabel(lab) == lab \in MonoSymbols \ {"e", "p", "n"}

(* ---- parse_static_mods: rules in order, every target collects the modifications of every rule naming it ---- *)
RulesMap(rules) ==
    FoldLeft(LAMBDA m, v :
               LET r == StaticRule(v) IN
               FoldLeft(LAMBDA m2, tg : [ x \in DOMAIN m2 \cup {tg} |-> IF x = tg THEN (IF tg \in DOMAIN m2 THEN m2[tg] ELSE <<>>) \o r.mods
                                                                        ELSE m2[x] ],
                        m, r.targets),
             <<>>, rules)
==============================================================================
