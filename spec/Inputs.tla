------------------------------- MODULE Inputs --------------------------------
(* The input normalisers of proforma/input_convert.py: every editor of an     *)
(* annotation accepts a modification as a bare value, a Mod, a list of those, *)
(* or (variable rules) a list of lists, and an interval as a tuple or an      *)
(* Interval; these functions turn what was given into lists of Mod.  C13 and  *)
(* C20 reach them through the editors; here they are called directly.         *)
(* An input is a tree:  [t |-> "v", v]      a bare value (tagged text)        *)
(*                      [t |-> "m", v, m]   a Mod with its multiplier         *)
(*                      [t |-> "l", items]  a list                            *)
(*                      [t |-> "x"]         something else (None)             *)
(* A result is [ok |-> TRUE, r |-> ...] or Bad (the code raises ValueError).  *)
EXTENDS Naturals, Integers, Sequences

Bad == [ok |-> FALSE, r |-> <<>>]
Ok(x) == [ok |-> TRUE, r |-> x]
IsVal(x) == x.t \in {"v", "m"}
ModOf(x) == IF x.t = "v" THEN [v |-> x.v, m |-> 1] ELSE [v |-> x.v, m |-> x.m]

(* convert_to_mod *)
ToMod(x) == IF IsVal(x) THEN Ok(ModOf(x)) ELSE Bad
(* fix_list_of_mods: a value is a list of one; a list must hold values only *)
FixList(x) ==
    IF IsVal(x) THEN Ok(<<ModOf(x)>>)
    ELSE IF x.t = "l" THEN (IF \A k \in 1..Len(x.items) : IsVal(x.items[k])
                            THEN Ok([ k \in 1..Len(x.items) |-> ModOf(x.items[k]) ]) ELSE Bad)
    ELSE Bad
(* fix_list_of_list_of_mods: a value -> one group of one; a list of values -> ONE group (the empty list included:    *)
(* one empty group); any other list -> one group per item, each item read by fix_list_of_mods                        *)
FixListList(x) ==
    IF IsVal(x) THEN Ok(<< <<ModOf(x)>> >>)
    ELSE IF x.t = "l" /\ \A k \in 1..Len(x.items) : IsVal(x.items[k]) THEN Ok(<<FixList(x).r>>)
    ELSE IF x.t = "l" THEN (IF \A k \in 1..Len(x.items) : FixList(x.items[k]).ok
                            THEN Ok([ k \in 1..Len(x.items) |-> FixList(x.items[k]).r ]) ELSE Bad)
    ELSE Bad
(* remove_empty_list_of_list_of_mods / remove_empty_list_of_mods on results: <<>> stands for None *)
DropEmptyGroups(groups) == SelectSeq(groups, LAMBDA g : g # <<>>)

(* what Python calls false: None, an empty list, an empty text, a zero *)
Falsy(x) == \/ x.t = "x"
            \/ (x.t = "l" /\ x.items = <<>>)
            \/ (x.t = "v" /\ x.v \in {"i:0", "f:0.0", "s:"})
(* fix_interval_input on a tuple (s, e, ambiguous, mods): a false fourth item means no modifications *)
FixInterval(s, e, amb, x) ==
    IF Falsy(x) THEN Ok([s |-> s, e |-> e, amb |-> amb, mods |-> <<>>])
    ELSE IF FixList(x).ok THEN Ok([s |-> s, e |-> e, amb |-> amb, mods |-> FixList(x).r]) ELSE Bad
==============================================================================
