------------------------------- MODULE MC_Scan -------------------------------
(* Laws of Scan.tla on every text of up to MaxLen letters over {K, P, A}:      *)
(*  - the leftmost scan returns a subsequence of the overlapped one, its       *)
(*    ranges are pairwise disjoint, and it is MAXIMAL: every overlapped match  *)
(*    it leaves out overlaps one it took;                                      *)
(*  - for one-letter patterns the two scans agree;                             *)
(*  - indices shifted by an offset are the unshifted ones plus the offset;     *)
(*  - merging is commutative and merging with the negated map is empty.        *)
EXTENDS Scan
CONSTANTS MaxLen
VARIABLE t
Letters3 == {"K", "P", "A"}
Init == t \in UNION { [1..n -> Letters3] : n \in 0..MaxLen }
Next == UNCHANGED t
Spec == Init /\ [][Next]_t
Cons(lit) == [style |-> "consuming", before |-> {}, beforeNot |-> {}, after |-> {}, afterNot |-> {}, notAfter |-> {}, lit |-> lit]
Rules == { Cons(<<{"K"}>>), Cons(<<{"K"}, {"K"}>>), Cons(<<{"K", "P"}, {"K"}>>), Cons(<<{"K"}, {"K", "A"}, {"K"}>>) }
SetOfSeq(s) == { s[k] : k \in 1..Len(s) }
Disjoint(rs) == \A i, j \in 1..Len(rs) : i < j => rs[i][2] <= rs[j][1]
LeftmostLaw == \A r \in Rules :
    LET o == RangesOverlapped(t, r, 0)  l == RangesLeftmost(t, r, 0) IN
    /\ SetOfSeq(l) \subseteq SetOfSeq(o)
    /\ Disjoint(l)
    /\ \A x \in SetOfSeq(o) \ SetOfSeq(l) : \E y \in SetOfSeq(l) : x[1] < y[2] /\ y[1] < x[2]
    /\ (Len(r.lit) = 1 => l = o)
OffsetLaw == \A r \in Rules, k \in {-1, 0, 3} :
    /\ IndicesSeq(t, r, k) = [ q \in 1..Len(IndicesSeq(t, r, 0)) |-> IndicesSeq(t, r, 0)[q] + k ]
    /\ LookBehind({"K"}).style = "zero" /\ IndicesSeq(t, LookBehind({"K"}), 0) = IndicesSeq(t, Cons(<<{"K"}>>), 0)
MergeLaw == t = <<>> =>
    \A a, b \in {-2, 0, 3}, c \in {0, 1} :
        LET p1 == <<<<"C", a>>, <<"H", c>>>>  p2 == <<<<"C", b>>, <<"O", 2>>>> IN
        /\ Merged(p1, p2) = Merged(p2, p1)
        /\ Merged(p1, <<<<"C", 0 - a>>, <<"H", 0 - c>>>>) = <<>>
        /\ \A x \in DOMAIN Merged(p1, p2) : Merged(p1, p2)[x] # 0
==============================================================================
