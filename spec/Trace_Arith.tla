----------------------------- MODULE Trace_Arith -----------------------------
(* Conformance of the real numeric helpers with Arith.tla.                    *)
(* k = "adjust": base, z, ion, mono (0/1), iso, loss, adducts ("" = none),    *)
(*               prec (-1 = none); out, res of adjust_mass                    *)
(* k = "mz":     base, z, prec; out, res of adjust_mz                         *)
(* k = "ppm":    theo (whole number), expt, prec; out, res of ppm_error       *)
(* k = "dalton": theo, expt (fixed point), prec; out, res of dalton_error     *)
(* k = "write":  pairs <<[ion, count]>>; out, text of write_charge_adducts,   *)
(*               again = parse_charge_adducts of that text as pairs           *)
(* k = "read":   text; out, res = pairs of parse_charge_adducts               *)
EXTENDS TraceBase, Arith
VARIABLE l

HalfUlp(prec) == IF prec < 0 THEN FZero
                 ELSE IF prec = 0 THEN <<0, 500000000>>
                 ELSE <<0, 5 * Pow10(9 - prec - 1)>>
AsMap(ps) == [ x \in { ps[k][1] : k \in 1..Len(ps) } |-> ps[CHOOSE k \in 1..Len(ps) : ps[k][1] = x][2] ]
DistinctKeys(ps) == \A i, j \in 1..Len(ps) : i # j => ps[i][1] # ps[j][1]
NotRounded(res, prec) == prec >= 0 /\ prec <= 8 /\ LET unit == Pow10(9 - prec)  r == res[2] % unit IN r > 2 /\ unit - r > 2

AdjustFails(ev) ==
    IF ev.out # "ret" THEN {"raised_" \o ev.out}
    ELSE LET want == AdjustMass(ev.base, ev.z, ev.ion, ev.mono = 1, ev.iso, ev.loss, ev.adducts)
             tol == FAdd(IF ev.mono = 1 THEN Micro(5) ELSE Micro(2000), HalfUlp(ev.prec)) IN
         (IF FWithin(ev.res, want, tol) THEN {} ELSE {"adjusted_mass_is_not_base_plus_ends_carriers_neutrons_loss"})
         \cup (IF NotRounded(ev.res, ev.prec) THEN {"result_not_rounded_to_the_precision"} ELSE {})
MzFails(ev) ==
    IF ev.out # "ret" THEN {"raised_" \o ev.out}
    ELSE LET zz == IF ev.z = 0 THEN 1 ELSE ev.z
             tol == FMulInt(FAdd(HalfUlp(ev.prec), Nano(2)), Abs(zz)) IN
         (IF FWithin(FMulInt(ev.res, zz), ev.base, tol) THEN {} ELSE {"mz_times_charge_is_not_the_mass"})
         \cup (IF NotRounded(ev.res, ev.prec) THEN {"result_not_rounded_to_the_precision"} ELSE {})
PpmFails(ev) ==
    IF ev.out # "ret" THEN {"raised_" \o ev.out}
    ELSE LET tol == FMulInt(FAdd(HalfUlp(ev.prec), Nano(2)), ev.theo) IN
         (IF FWithin(FMulInt(ev.res, ev.theo), FMulInt(FSub(ev.expt, FInt(ev.theo)), 1000000), tol) THEN {}
          ELSE {"ppm_times_theoretical_is_not_a_million_differences"})
         \cup (IF NotRounded(ev.res, ev.prec) THEN {"result_not_rounded_to_the_precision"} ELSE {})
DaltonFails(ev) ==
    IF ev.out # "ret" THEN {"raised_" \o ev.out}
    ELSE (IF FWithin(ev.res, FSub(ev.expt, ev.theo), FAdd(HalfUlp(ev.prec), Nano(2))) THEN {} ELSE {"dalton_error_is_not_the_difference"})
         \cup (IF NotRounded(ev.res, ev.prec) THEN {"result_not_rounded_to_the_precision"} ELSE {})
WriteFails(ev) ==
    IF ev.out # "ret" THEN {"raised_" \o ev.out}
    ELSE (IF ev.text = WriteAdducts(ev.pairs) THEN {} ELSE {"carriers_written_differently"})
         \cup (IF DistinctKeys(ev.again) /\ AsMap(ev.again) = SumPairs(ev.pairs) THEN {} ELSE {"written_carriers_read_back_differ"})
ReadFails(ev) ==
    IF ~ReadableText(ev.text) THEN (IF ev.out \in {"ret", "ValueError"} THEN {} ELSE {"raised_" \o ev.out})
    ELSE IF ev.out # "ret" THEN {"readable_carriers_rejected"}
    ELSE IF DistinctKeys(ev.res) /\ AsMap(ev.res) = ReadAdducts(ev.text) THEN {} ELSE {"carriers_read_differently"}
Fails(ev) == CASE ev.k = "adjust" -> AdjustFails(ev)
               [] ev.k = "mz" -> MzFails(ev)
               [] ev.k = "ppm" -> PpmFails(ev)
               [] ev.k = "dalton" -> DaltonFails(ev)
               [] ev.k = "write" -> WriteFails(ev)
               [] ev.k = "read" -> ReadFails(ev)
               [] OTHER -> {"unknown_event_kind"}
Detail(ev) == CASE ev.k = "adjust" -> <<"spec", AdjustMass(ev.base, ev.z, ev.ion, ev.mono = 1, ev.iso, ev.loss, ev.adducts)>>
                [] ev.k = "write" -> <<"spec", WriteAdducts(ev.pairs)>>
                [] ev.k = "read" -> <<"spec", IF ReadableText(ev.text) THEN ReadAdducts(ev.text) ELSE <<>> >>
                [] OTHER -> <<>>
Init == l = 1 /\ ResetCounters
Next == /\ l <= NEvents
        /\ LET f == Fails(Events[l]) IN RecordD(Events[l], MkVerdict(f, ""), IF f = {} THEN <<>> ELSE Detail(Events[l]))
        /\ l' = l + 1
Spec == Init /\ [][Next]_l
Post == PrintT(Totals) /\ TLCGet(1) + TLCGet(2) + TLCGet(3) = NEvents
==============================================================================
