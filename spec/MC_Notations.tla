---------------------------- MODULE MC_Notations -----------------------------
(* Laws of the ion machine (Notations.tla) on every text of up to MaxLen       *)
(* characters over a small alphabet:                                            *)
(*   - on a well-formed ion the machine accepts, and count x (symbol - charge    *)
(*     electrons) is the composition Mass!Adduct (the reference of C02) reads;  *)
(*   - the machine accepts only texts with a letter, and its symbol contains    *)
(*     neither digits nor signs;                                                *)
(*   - isotope labels: the map has one entry per element, later labels win.    *)
EXTENDS Notations, TLC
CONSTANTS MaxLen
VARIABLE t

Alphabet == <<"+", "-", "1", "2", "N", "a", "H", "e", ",">>
Texts == UNION { { FoldLeft(LAMBDA acc, k : acc \o Alphabet[k], "", s) : s \in [1..n -> 1..Len(Alphabet)] } : n \in 0..MaxLen }
Init == t \in Texts
Next == UNCHANGED t
Spec == Init /\ [][Next]_t

MachineComp(m) == IF m.sym = "e" THEN CScale(Cmp(<<"e", 1>>), m.cnt)
                  ELSE CScale(CAdd(Cmp(<<m.sym, 1>>), Cmp(<<"e", 0 - m.q>>)), m.cnt)
AgreesWithReference == WellFormedIon(t) => LET m == IonElements(t) IN m.cls = "ret" /\ MachineComp(m) = Adduct(t)
AcceptsOnlyIons == LET m == IonElements(t) IN
                   m.cls = "ret" => /\ \E k \in 1..Len(t) : At(t, k) \in Letters
                                    /\ \A k \in 1..Len(m.sym) : At(m.sym, k) \notin Digits \cup Signs
                                    /\ m.sym # ""
Labels3 == {"13C", "14C", "15N", "D", "T", "2H", "H", "C"}
LabelLaw == t = "" => \A a, b, c \in Labels3 :
               LET m == IsotopeMap(<<a, b, c>>) IN
               /\ \A x \in DOMAIN m : x \in {"C", "N", "H"}
               (* later labels win - except for hydrogen, where T beats D beats any H label whatever the order *)
               /\ (StripDigits(c) \notin {"D", "T", "H"} => m[StripDigits(c)] = c)
               /\ ("T" \in {a, b, c} => m["H"] = "T")
               /\ ("T" \notin {a, b, c} /\ "D" \in {a, b, c} => m["H"] = "D")
               /\ IsotopeMap(<<a, a>>) = IsotopeMap(<<a>>)
==============================================================================
