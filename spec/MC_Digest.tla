------------------------------ MODULE MC_Digest ------------------------------
(* Machine layer for C06: the grouped semi-span builder of spans.py as a      *)
(* state machine (one action per parent span processed), checked against the  *)
(* declarative reference Digest!Specific for every configuration up to MaxN.  *)
(* Also: laws of the reference layer that the property states.                *)
EXTENDS Digest, SequencesExt, TLC
CONSTANTS MaxN, MaxMC

VARIABLES cfg,      \* [n, S, mc, mn, mx] chosen once
          pc,       \* "left" | "right" | "done"
          todo,     \* parents still to process in this pass, in the code's order
          skipKey,  \* group key whose remaining parents are skipped (the code's `break`), or -1
          out,      \* spans emitted so far
          dup       \* TRUE once a span was emitted twice
vars == <<cfg, pc, todo, skipKey, out, dup>>

Bounds(n) == {NoBound} \cup (1..(n + 1))

(* enzymatic parents as build_spans(semi=True) computes them: min_len applied, max_len not *)
Parents(c) == { sp \in Enz(c.n, c.S, c.mc) : c.mn = NoBound \/ sp[2] - sp[1] >= c.mn }

LeftOrder(a, b)  == a[1] < b[1] \/ (a[1] = b[1] /\ a[3] > b[3])
RightOrder(a, b) == a[2] < b[2] \/ (a[2] = b[2] /\ a[3] > b[3])

MinLen(c) == IF c.mn = NoBound THEN 1 ELSE c.mn

Init == /\ cfg \in { [n |-> n, S |-> S, mc |-> mc, mn |-> mn, mx |-> mx] :
                       n \in 1..MaxN, S \in SUBSET (0..MaxN), mc \in 0..MaxMC,
                       mn \in Bounds(MaxN), mx \in Bounds(MaxN) }
        /\ cfg.S \subseteq 0..cfg.n /\ ~AllSites(cfg.n, cfg.S)
        /\ cfg.mn \in Bounds(cfg.n) /\ cfg.mx \in Bounds(cfg.n)
        /\ pc = "left"
        /\ todo = SetToSortSeq(Parents(cfg), LeftOrder)
        /\ skipKey = -1
        /\ out = { sp \in Parents(cfg) : LenOk(sp[1], sp[2], cfg.mn, cfg.mx) }
        /\ dup = FALSE

Min2(a, b) == IF a < b THEN a ELSE b
Max2(a, b) == IF a > b THEN a ELSE b

(* build_left_semi_spans(span, lo, hi) / build_right_semi_spans(span, lo, hi) *)
LeftSemi(sp, lo, hi)  == { <<sp[1], i, sp[3]>> : i \in { j \in (sp[1])..Min2(sp[1] + hi, sp[2] - 1) : j - sp[1] >= lo } }
RightSemi(sp, lo, hi) == { <<i, sp[2], sp[3]>> : i \in { j \in Max2(sp[1] + 1, sp[2] - hi)..(sp[2]) : sp[2] - j >= lo } }

Emit(new) == /\ out' = out \cup new
             /\ dup' = (dup \/ (new \cap out # {}))

LeftStep ==
    /\ pc = "left" /\ todo # <<>>
    /\ LET sp == Head(todo)
           len == sp[2] - sp[1]
           hasNext == Len(todo) >= 2 /\ todo[2][1] = sp[1]
           newMax == IF cfg.mx = NoBound THEN len - 1 ELSE Min2(cfg.mx, len - 1)
           newMin == IF hasNext THEN Max2(MinLen(cfg), (todo[2][2] - todo[2][1]) + 1) ELSE MinLen(cfg) IN
       IF skipKey = sp[1] THEN UNCHANGED <<out, dup, skipKey>>
       ELSE IF len <= MinLen(cfg) THEN skipKey' = sp[1] /\ UNCHANGED <<out, dup>>
       ELSE Emit(LeftSemi(sp, newMin, newMax)) /\ UNCHANGED skipKey
    /\ todo' = Tail(todo)
    /\ UNCHANGED <<cfg, pc>>

LeftDone ==
    /\ pc = "left" /\ todo = <<>>
    /\ pc' = "right" /\ todo' = SetToSortSeq(Parents(cfg), RightOrder) /\ skipKey' = -1
    /\ UNCHANGED <<cfg, out, dup>>

RightStep ==
    /\ pc = "right" /\ todo # <<>>
    /\ LET sp == Head(todo)
           len == sp[2] - sp[1]
           hasNext == Len(todo) >= 2 /\ todo[2][2] = sp[2]
           newMax == IF cfg.mx = NoBound THEN len - 1 ELSE Min2(cfg.mx, len - 1)
           newMin == IF hasNext THEN Max2(MinLen(cfg), (todo[2][2] - todo[2][1]) + 1) ELSE MinLen(cfg) IN
       IF skipKey = sp[2] THEN UNCHANGED <<out, dup, skipKey>>
       ELSE IF len < MinLen(cfg) THEN skipKey' = sp[2] /\ UNCHANGED <<out, dup>>
       ELSE Emit(RightSemi(sp, newMin, newMax)) /\ UNCHANGED skipKey
    /\ todo' = Tail(todo)
    /\ UNCHANGED <<cfg, pc>>

RightDone ==
    /\ pc = "right" /\ todo = <<>>
    /\ pc' = "done"
    /\ UNCHANGED <<cfg, todo, skipKey, out, dup>>

Next == LeftStep \/ LeftDone \/ RightStep \/ RightDone
Spec == Init /\ [][Next]_vars

(* the machine refines the reference layer *)
Refines == pc = "done" => out = Specific(cfg.n, cfg.S, cfg.mc, TRUE, cfg.mn, cfg.mx)
NoDuplicates == ~dup
ValuesCountSites == \A sp \in out : sp[3] = Inside(cfg.n, cfg.S, sp[1], sp[2])

(* laws of the reference layer stated by the property, checked on the initial configuration *)
RefLaws ==
    LET n == cfg.n  S == cfg.S IN
    /\ \A sp \in Specific(n, S, cfg.mc, TRUE, cfg.mn, cfg.mx) :
          /\ 0 <= sp[1] /\ sp[1] < sp[2] /\ sp[2] <= n
          /\ sp[3] = Inside(n, S, sp[1], sp[2])
          /\ LenOk(sp[1], sp[2], cfg.mn, cfg.mx)
    /\ Specific(n, S, cfg.mc, FALSE, cfg.mn, cfg.mx) \subseteq Specific(n, S, cfg.mc, TRUE, cfg.mn, cfg.mx)
    /\ \A sp \in Specific(n, S, cfg.mc, FALSE, cfg.mn, cfg.mx) : sp[1] \in Cuts(n, S) /\ sp[2] \in Cuts(n, S)
    (* zero missed cleavages: the unfiltered enzymatic spans partition 0..n *)
    /\ LET Z == Enz(n, S, 0) IN
          /\ \A p \in 0..(n - 1) : Cardinality({ sp \in Z : sp[1] <= p /\ p < sp[2] }) = 1
    (* a sequential digest with complete zero-missed-cleavage stages = the simultaneous digest *)
    /\ \A S1 \in SUBSET S :
          LET S2 == S \ S1
              stage1 == Enz(n, S1, 0)
              stage2 == UNION { { <<sp[1] + q[1], sp[1] + q[2]>> :
                                  q \in Enz(sp[2] - sp[1], { c - sp[1] : c \in { x \in S2 : sp[1] <= x /\ x <= sp[2] } }, 0) }
                                : sp \in stage1 } IN
          stage2 = { <<sp[1], sp[2]>> : sp \in Enz(n, S, 0) }
==============================================================================
