-------------------------------- MODULE Match --------------------------------
(* Reference layer for C17: which observed peaks a theoretical m/z matches.   *)
(* All m/z values are integers in units of 1/8 Th (a grid on which every      *)
(* floating-point operation of the implementation is exact).                  *)
(* Tolerance: "th"  - absolute, tol8 eighths;                                  *)
(*            "ppm" - theoretical values are 1000*m Th (t8 = 8000*m) and the  *)
(*                    tolerance is 125*j ppm, so the offset t*tol/1e6 is      *)
(*                    exactly m*j eighths.                                    *)
EXTENDS Integers, Sequences, FiniteSets

\* @type: (Int, Str, Int) => Int;
Offset8(t8, tt, tol) == IF tt = "th" THEN tol ELSE (t8 \div 8000) * tol

(* indices are 0-based, as the implementation reports them *)
\* @type: (Int, Seq(Int), Str, Int) => Set(Int);
Window(t8, obs8, tt, tol) ==
    { k - 1 : k \in { j \in DOMAIN obs8 : /\ obs8[j] >= t8 - Offset8(t8, tt, tol)
                                          /\ obs8[j] <= t8 + Offset8(t8, tt, tol) } }

\* @type: (Int, Int) => Int;
AbsDiff(a, b) == IF a >= b THEN a - b ELSE b - a

\* @type: (Int, Seq(Int), Str, Int) => Set(Int);
Closest(t8, obs8, tt, tol) ==
    LET W == Window(t8, obs8, tt, tol) IN
    { j \in W : \A q \in W : AbsDiff(obs8[j + 1], t8) <= AbsDiff(obs8[q + 1], t8) }

\* @type: (Int, Seq(Int), Seq(Int), Str, Int) => Set(Int);
Largest(t8, obs8, inten, tt, tol) ==
    LET W == Window(t8, obs8, tt, tol) IN
    { j \in W : \A q \in W : inten[j + 1] >= inten[q + 1] }

\* @type: (Seq(Int)) => Bool;
Sorted(s) == \A i \in DOMAIN s : (i + 1) \in DOMAIN s => s[i] <= s[i + 1]
==============================================================================
