------------------------------ MODULE MC_Foreign -----------------------------
(* Stage A for the foreign notations (Foreign.tla).                           *)
(* Laws, on a bounded annotation space:                                       *)
(*   the parser machine reads Convert(WriteForeign(A)) as exactly A           *)
(*   (restricted to the part of each foreign notation for which that holds -  *)
(*   the restrictions are the design-level findings TLC produced, see below)  *)
(*   and the FASTA line machine computes what a FASTA text denotes.           *)
(* Stage B: every short text over each notation's alphabet, every annotation  *)
(* of the law space and every short list of FASTA lines is written out for    *)
(* the harness, which runs the real converters / parser / reader on them.     *)
EXTENDS Foreign, FiniteSetsExt, Json, IOUtils
CONSTANT Full      \* TRUE: the unrestricted law space (TLC then reports the shortest annotation a converter mangles)
VARIABLE pick
vars == <<pick>>

N1 == Mod("i:1", 1)
V1 == Mod("s:phospho", 1)
V2 == Mod("i:2", 1)
C3 == Mod("i:3", 1)
NamedN == Mod("s:acetyl", 1)
Seqs == UNION { [1..n -> {"P", "K"}] : n \in 1..3 }
AnnOf(sq, nt, ct, f) == [ EmptyAnn(sq) EXCEPT !.nterm = nt, !.cterm = ct,
                                               !.internal = InternalFrom([ i \in { j \in 0..(Len(sq) - 1) : f[j + 1] # <<>> } |-> f[i + 1] ]) ]
Anns == UNION { { AnnOf(sq, nt, ct, f) : nt \in {<<>>, <<N1>>, <<NamedN>>}, ct \in {<<>>, <<C3>>},
                                          f \in [1..Len(sq) -> {<<>>, <<V1>>, <<V2>>, <<V1, V2>>}] } : sq \in Seqs }

(* The part of each notation that survives conversion (found by running the laws with Full = TRUE):               *)
(*  IP2:      an N-terminal modification must be all digits ("(acetyl)PEP" becomes "[acetyl]PEP", which the parser  *)
(*            rejects); a C-terminal modification exists only after a modified last residue ("PEK(3)" is a residue    *)
(*            modification), and a residue may carry one modification only ("P(a)(b)K" becomes "P[a]-[b]K");         *)
(*  DIA-NN:   one N-terminal group only (the second group of "_[a][b]PEK_" stays glued to the first);               *)
(*  Casanovo: numeric values only (the notation has nothing else), one shift per residue ("P+1+2" nests brackets).   *)
LastModded(A) == ModsAt(A, NRes(A) - 1) # <<>>
OnePerResidue(A) == \A p \in 0..(NRes(A) - 1) : Len(ModsAt(A, p)) <= 1
Numeric(ms) == \A k \in 1..Len(ms) : SubSeq(ms[k].v, 1, 2) = "i:"
Ip2Ok(A) == Full \/ ( /\ Numeric(A.nterm)
                      /\ \A p \in 0..(NRes(A) - 2) : Len(ModsAt(A, p)) <= 1
                      /\ (A.cterm # <<>> => Len(ModsAt(A, NRes(A) - 1)) = 1)
                      /\ (A.cterm = <<>> => Len(ModsAt(A, NRes(A) - 1)) <= 1) )
DiannOk(A) == TRUE
CasOk(A) == Full \/ (A.cterm = <<>> /\ Numeric(A.nterm) /\ OnePerResidue(A)
                     /\ \A p \in 0..(NRes(A) - 1) : Numeric(ModsAt(A, p)))

(* two steps, so that the workers evaluate the laws in parallel (initial states are processed by one thread) *)
None == [none |-> TRUE]
Init == pick = None
Next == pick = None /\ pick' \in Anns
Spec == Init /\ [][Next]_vars

LawIp2 == (pick # None /\ Ip2Ok(pick)) => \A fl \in BOOLEAN : Denotes(ConvertIp2(WriteIp2(pick, fl)), pick)
LawDiann == (pick # None /\ DiannOk(pick)) => Denotes(ConvertDiann(WriteDiann(pick)), pick)
LawCasanovo == (pick # None /\ CasOk(pick)) => Denotes(ConvertCasanovo(WriteCasanovo(pick)), pick)

(* FASTA: the line machine computes the denotation, for every list of up to 4 lines *)
Lines == {">a", "> b c ", ">", "pek", " Kr ", "", "x>y", "\t>t\t"}
LineSeqs == UNION { [1..n -> Lines] : n \in 0..4 }
LawFasta == \A ls \in LineSeqs : FastaRun(ls) = FastaDenotes(ls)
ASSUME LawFasta

(* ---------------------------- stage B: inputs --------------------------- *)
RECURSIVE Strings(_, _)
Strings(alpha, n) == IF n = 0 THEN {""} ELSE LET S == Strings(alpha, n - 1) IN S \cup { s \o c : s \in S, c \in alpha }
Inputs ==
    { [k |-> "convert", which |-> "ip2", text |-> t] : t \in Strings({"K", ".", "(", ")", "1", "-", "a"}, 5) }
    \cup { [k |-> "convert", which |-> "diann", text |-> t] : t \in Strings({"_", "[", "]", "K", "a"}, 6) }
    \cup { [k |-> "convert", which |-> "casanovo", text |-> t] : t \in Strings({"+", "-", "1", ".", "P", "k"}, 5) }
LawInputs ==
    { [k |-> "convlaw", which |-> "ip2", A |-> A, text |-> WriteIp2(A, fl)] : A \in { B \in Anns : Ip2Ok(B) }, fl \in BOOLEAN }
    \cup { [k |-> "convlaw", which |-> "diann", A |-> A, text |-> WriteDiann(A)] : A \in { B \in Anns : DiannOk(B) } }
    \cup { [k |-> "convlaw", which |-> "casanovo", A |-> A, text |-> WriteCasanovo(A)] : A \in { B \in Anns : CasOk(B) } }
FastaInputs == { [k |-> "fasta", lines |-> ls] : ls \in LineSeqs }
Emit == /\ TLCGet("stats").diameter >= 0
        /\ ndJsonSerialize(IOEnv.OUT_FILE, SetToSeq(Inputs))
        /\ ndJsonSerialize(IOEnv.OUT_FILE2, SetToSeq(LawInputs))
        /\ ndJsonSerialize(IOEnv.OUT_FILE3, SetToSeq(FastaInputs))
==============================================================================
