-------------------------------- MODULE Sweep --------------------------------
(* The two-pointer sweep of get_matched_indices as a machine: a lower pointer *)
(* shared by all theoretical values, an upper pointer restarted from it, one  *)
(* action per loop iteration.  Shared by MC_Sweep (TLC, every pair of sorted  *)
(* lists on a small grid) and Apa_Sweep (Apalache, inductive invariant for    *)
(* integers of any size).  The @type comments are for Apalache; TLC ignores   *)
(* them.                                                                       *)
EXTENDS Match
VARIABLES
    \* @type: Seq(Int);
    theo,
    \* @type: Seq(Int);
    obs,
    \* @type: Int;
    tol,
    \* @type: Int;
    i,
    \* @type: Int;
    lo,
    \* @type: Int;
    hi,
    \* @type: Str;
    pc,
    \* @type: Seq(Set(Int));
    out
vars == <<theo, obs, tol, i, lo, hi, pc, out>>

(* "next": start the iteration for theo[i] (or stop) *)
Start == /\ pc = "next" /\ i <= Len(theo)
         /\ IF lo >= Len(obs) THEN /\ out' = Append(out, {}) /\ i' = i + 1 /\ UNCHANGED <<pc, lo, hi>>
            ELSE /\ pc' = "lo" /\ UNCHANGED <<out, i, lo, hi>>
         /\ UNCHANGED <<theo, obs, tol>>
AdvanceLo == /\ pc = "lo"
             /\ IF lo < Len(obs) /\ obs[lo + 1] < theo[i] - tol
                THEN lo' = lo + 1 /\ UNCHANGED <<pc, hi, out, i>>
                ELSE IF lo >= Len(obs) THEN /\ out' = Append(out, {}) /\ i' = i + 1 /\ pc' = "next" /\ UNCHANGED <<lo, hi>>
                ELSE /\ hi' = lo /\ pc' = "hi" /\ UNCHANGED <<lo, out, i>>
             /\ UNCHANGED <<theo, obs, tol>>
ExtendHi == /\ pc = "hi"
            /\ IF hi < Len(obs) /\ obs[hi + 1] <= theo[i] + tol
               THEN hi' = hi + 1 /\ UNCHANGED <<pc, lo, out, i>>
               ELSE /\ out' = Append(out, { k - 1 : k \in { j \in DOMAIN obs : lo + 1 <= j /\ j <= hi } })    \* = lo..(hi - 1)
                    /\ i' = i + 1 /\ pc' = "next" /\ UNCHANGED <<lo, hi>>
            /\ UNCHANGED <<theo, obs, tol>>
Next == Start \/ AdvanceLo \/ ExtendHi
(* every emitted window is exactly the declarative window *)
Refines == \A q \in DOMAIN out : out[q] = Window(theo[q], obs, "th", tol)
(* the shared lower pointer never passes a peak a later theoretical value still needs *)
LoSafe == \A q \in i..Len(theo) : \A j \in Window(theo[q], obs, "th", tol) : (q > i \/ pc # "hi") => j >= lo \/ q < i
==============================================================================
