-------------------------------- MODULE Scan ---------------------------------
(* The two regex scanners of util.py as operations of their own (digest and   *)
(* the modification builders call them with offset 0 / -1 and patterns of     *)
(* their choice; here every rule record of Digest.tla, every offset):         *)
(*   get_regex_match_indices(text, pattern, offset): one index per match, in  *)
(*       scan order - the match start for a zero-width match, start + 1 for a *)
(*       consuming one - matches may overlap;                                  *)
(*   get_regex_match_range(text, pattern, offset): (start, end) per match;    *)
(*       OVERLAPPING matches when the pattern is given as text, and - as the  *)
(*       code stands - only the leftmost NON-overlapping ones when it is      *)
(*       given compiled (two branches of the function, two actions here);     *)
(*   merge_dicts(d1, d2): key-wise sum, zero entries dropped.                 *)
EXTENDS Digest, TLC

SortedSeq(S) == LET RECURSIVE Build(_)
                    Build(T) == IF T = {} THEN <<>> ELSE LET m == CHOOSE x \in T : \A y \in T : x <= y IN <<m>> \o Build(T \ {m})
                IN Build(S)
(* indices, in scan order (ascending match start; a rule record yields each position at most once) *)
IndicesSeq(seq, r, offset) == LET s == SortedSeq(Sites(seq, r)) IN [ k \in 1..Len(s) |-> s[k] + offset ]

(* 1-based starts of the matches of a consuming rule *)
Starts(seq, r) == Sites(seq, r)
RangesOverlapped(seq, r, offset) ==
    LET s == SortedSeq(Starts(seq, r))  m == Len(r.lit) IN [ k \in 1..Len(s) |-> <<s[k] - 1 + offset, s[k] - 1 + m + offset>> ]
(* the scan of finditer without overlapped=True: take the leftmost match at or after the cursor, continue after its end *)
RECURSIVE Leftmost(_, _, _)
Leftmost(S, cur, m) == LET T == { x \in S : x >= cur } IN
                       IF T = {} THEN <<>> ELSE LET x == CHOOSE y \in T : \A z \in T : y <= z IN <<x>> \o Leftmost(S, x + m, m)
RangesLeftmost(seq, r, offset) ==
    LET m == Len(r.lit)  s == Leftmost(Starts(seq, r), 1, m) IN [ k \in 1..Len(s) |-> <<s[k] - 1 + offset, s[k] - 1 + m + offset>> ]
(* a zero-width rule has empty matches: (i, i) at every site, overlapped or not *)
RangesZero(seq, r, offset) == LET s == SortedSeq(Sites(seq, r)) IN [ k \in 1..Len(s) |-> <<s[k] + offset, s[k] + offset>> ]
Ranges(seq, r, offset, compiled) ==
    IF r.style = "zero" THEN RangesZero(seq, r, offset)
    ELSE IF compiled THEN RangesLeftmost(seq, r, offset) ELSE RangesOverlapped(seq, r, offset)

(* merge_dicts on <<key, value>> pair lists with distinct keys *)
PairMap(ps) == [ x \in { ps[k][1] : k \in 1..Len(ps) } |-> ps[CHOOSE k \in 1..Len(ps) : ps[k][1] = x][2] ]
Merged(p1, p2) ==
    LET a == PairMap(p1)  b == PairMap(p2)
        sum == [ x \in DOMAIN a \cup DOMAIN b |-> (IF x \in DOMAIN a THEN a[x] ELSE 0) + (IF x \in DOMAIN b THEN b[x] ELSE 0) ] IN
    [ x \in { y \in DOMAIN sum : sum[y] # 0 } |-> sum[x] ]
==============================================================================
