----------------------------- MODULE MC_ProForma -----------------------------
(* Bounded exhaustive space of abstract annotations (the feature cross        *)
(* product of C01), the laws the reference layer must satisfy on it, and the  *)
(* generator of (annotation, text) cases replayed into the real code.         *)
EXTENDS ParserMachine, FiniteSetsExt, Json, IOUtils
CONSTANTS MaxLen,        \* residues per chain
          MaxMods        \* modifications placed in total

VARIABLES A, base, phase
vars == <<A, base, phase>>

Residues == {"P", "K"}
Seqs == UNION { [1..n -> Residues] : n \in 1..MaxLen }

(* modification vocabulary: every value kind of the property, some with multipliers *)
Vocab == << Mod("i:1", 1), Mod("f:1.5", 1), Mod("i:-3", 1), Mod("s:Oxidation", 1), Mod("s:U:35", 1),
            Mod("s:MOD:00046", 1), Mod("s:Formula:[13C2]H4", 1), Mod("s:Glycan:HexNAc2Hex", 1),
            Mod("s:Obs:+1.2", 1), Mod("s:INFO:x", 1), Mod("s:#g1", 1), Mod("s:Oxidation#g1(0.5)", 1),
            Mod("s:Oxidation|INFO:x", 1), Mod("f:1.0", 2), Mod("s:Phospho", 3) >>
StaticVocab  == << Mod("s:[Carbamidomethyl]@C", 1), Mod("s:[+15.995]@M,N-Term", 1) >>
IsotopeVocab == << Mod("s:13C", 1), Mod("s:D", 1) >>

(* a placement = <<slot, index into the slot's vocabulary>>; slots "r0".."r9" are residues *)
FreeSlots == {"labile", "unknown", "nterm", "cterm", "interval"} \cup { "r" \o ToString(i) : i \in 0..(MaxLen - 1) }
Placements == (FreeSlots \X (1..Len(Vocab))) \cup ({"static"} \X (1..Len(StaticVocab)))
              \cup ({"isotope"} \X (1..Len(IsotopeVocab)))

VocabOf(slot) == IF slot = "static" THEN StaticVocab ELSE IF slot = "isotope" THEN IsotopeVocab ELSE Vocab

PlLess(a, b) == a[2] < b[2]
ModsIn(ch, slot) == LET ps == SetToSortSeq({ p \in ch : p[1] = slot }, PlLess)
                    IN  [ k \in 1..Len(ps) |-> VocabOf(slot)[ps[k][2]] ]

IntervalShapes(n) == {<<>>} \cup { <<s, e, amb>> : s \in 0..(n - 1), e \in 1..n, amb \in BOOLEAN }

Build(seq, ch, iv, z, ad) ==
    LET n == Len(seq) IN
    [ seq |-> seq,
      labile |-> ModsIn(ch, "labile"), static |-> ModsIn(ch, "static"), isotope |-> ModsIn(ch, "isotope"),
      unknown |-> ModsIn(ch, "unknown"), nterm |-> ModsIn(ch, "nterm"), cterm |-> ModsIn(ch, "cterm"),
      internal |-> InternalFrom([ i \in 0..(n - 1) |-> ModsIn(ch, "r" \o ToString(i)) ]),
      intervals |-> IF iv = <<>> THEN <<>> ELSE << [s |-> iv[1], e |-> iv[2], amb |-> iv[3], mods |-> ModsIn(ch, "interval")] >>,
      charge |-> z,
      adducts |-> IF ad /\ z # 0 THEN << Mod("s:+2Na+,+H+", 1) >> ELSE <<>> ]

RECURSIVE UpToK(_, _)
UpToK(k, S) == IF k = 0 THEN {{}} ELSE LET prev == UpToK(k - 1, S) IN prev \cup { T \cup {x} : T \in prev, x \in S }
ModChoices == UpToK(MaxMods, Placements)

AnnSpace ==
    { Build(seq, ch, iv, z, ad) :
        seq \in Seqs, ch \in ModChoices, iv \in IntervalShapes(MaxLen), z \in {0, 2, -1}, ad \in BOOLEAN }

Valid(X) == /\ WellFormed(X)
            /\ \A k \in 1..Len(X.internal) : X.internal[k].i < NRes(X)
            /\ (X.intervals = <<>> => TRUE)

(* two steps (shape, then modification placements) so that TLC's workers share the evaluation of the laws *)
Shapes == { <<seq, iv, z, ad>> : seq \in Seqs, iv \in IntervalShapes(MaxLen), z \in {0, 2, -1}, ad \in BOOLEAN }
Init == /\ base \in { b \in Shapes : Valid(Build(b[1], {}, b[2], b[3], b[4])) }
        /\ A = Build(base[1], {}, base[2], base[3], base[4]) /\ phase = 0
Pick == /\ phase = 0 /\ phase' = 1 /\ UNCHANGED base
        /\ A' \in { X \in { Build(base[1], ch, base[2], base[3], base[4]) : ch \in ModChoices } : Valid(X) }
Next == Pick
Spec == Init /\ [][Next]_vars

(* ------------------------------ laws ----------------------------------- *)
n == NRes(A)
LawEqualReflexive == Equal(A, A) /\ Diff(A, A) = {}
LawStrip == Write(Strip(A), FALSE) = Join(A.seq)
LawPlusOnlyAddsPlus == Len(Write(A, TRUE)) >= Len(Write(A, FALSE))
LawReverseInvolution == ReverseAnn(ReverseAnn(A, FALSE), FALSE) = A /\ ReverseAnn(ReverseAnn(A, TRUE), TRUE) = A
LawShiftInverse == \A k \in 0..n : /\ ShiftAnn(ShiftAnn(A, k), n - k).seq = A.seq
                                   /\ ShiftAnn(ShiftAnn(A, k), n - k).internal = A.internal
LawShiftByLength == ShiftAnn(A, n) = A
LawReorderKeepsResidueBag == /\ IsResiduePermutation(A, ReverseAnn(A, FALSE))
                             /\ \A k \in 0..n : IsResiduePermutation(A, ShiftAnn(A, k))
LawSliceWhole == Slice(A, 0, n) = A
LawSliceCompose == \A i \in 0..n, j \in 0..n : i <= j =>
                      \A a \in 0..(j - i), b \in 0..(j - i) : a <= b =>
                          Slice(Slice(A, i, j), a, b) = Slice(A, i + a, i + b)
LawPiecesConcat ==
    (A.intervals = <<>>) =>
        LET whole == FoldLeft(LAMBDA acc, p : Concat(acc, Piece(A, p)), Piece(A, 0), [ q \in 1..(n - 1) |-> q ])
        IN  Equal(whole, A)
(* the parser machine inverts the writer: every spelling of A is accepted and denotes exactly A *)
ParsesTo(t, X) == LET o == Outcome(t) IN o.cls = "accept" /\ Len(o.chains) = 1 /\ Diff(o.chains[1], X) = {} /\ o.links = <<>>
LawParseInvertsWrite == /\ ParsesTo(Write(A, FALSE), A) /\ ParsesTo(WriteV(A, TRUE, FALSE), A) /\ ParsesTo(WriteV(A, TRUE, TRUE), A)
(* and two chains joined by "+" or "//" come back as those two chains *)
LawParseInvertsMulti == \A link \in BOOLEAN :
                           LET o == Outcome(WriteMulti(<<A, A>>, <<link>>, FALSE, FALSE)) IN
                           o.cls = "accept" /\ Len(o.chains) = 2 /\ Diff(o.chains[1], A) = {} /\ Diff(o.chains[2], A) = {} /\ o.links = <<link>>
(* two different annotations never share a text (the notation is unambiguous on this space):           *)
(* checked through the state graph - TLC's VIEW is the text, so a collision would lose states          *)
TextView == Write(A, FALSE)

(* ---------------------------- generator -------------------------------- *)
Case(X) == [A |-> X, text0 |-> Write(X, FALSE), text1 |-> WriteV(X, TRUE, FALSE), text2 |-> WriteV(X, TRUE, TRUE)]
(* written in six parts (charge x adducts) to files OUT_FILE.1 .. OUT_FILE.6: TLC refuses explicit sets of more   *)
(* than 10^6 elements and the thorough space has 1.1 million annotations                                           *)
Parts == <<<<0, FALSE>>, <<0, TRUE>>, <<2, FALSE>>, <<2, TRUE>>, <<-1, FALSE>>, <<-1, TRUE>>>>
PartSpace(p) == { Build(seq, ch, iv, p[1], p[2]) : seq \in Seqs, ch \in ModChoices, iv \in IntervalShapes(MaxLen) }
EmitCases == /\ TLCGet("stats").diameter >= 0
             /\ \A k \in 1..Len(Parts) :
                   ndJsonSerialize(IOEnv.OUT_FILE \o "." \o ToString(k),
                                   SetToSeq({ Case(X) : X \in { Y \in PartSpace(Parts[k]) : Valid(Y) } }))
==============================================================================
