------------------------------ MODULE MC_Spans -------------------------------
(* Laws of the span machine (Spans.tla) on every small instance:               *)
(*   - build_spans, as a set, is what Digest!Spans demands (the reference of   *)
(*     C06), and yields no span twice;                                          *)
(*   - the non-enzymatic builder yields every proper sub-span within the       *)
(*     length bounds once; left- and right-semi spans are such sub-spans that  *)
(*     share the start resp. the end with their parent and keep its value;     *)
(*   - accumulated coverage sums to the total length of the spans.             *)
EXTENDS Spans
CONSTANTS MaxN, MaxMc
VARIABLE inst

Bounds(n) == {NoBound} \cup (1..(n + 1))
Instances == UNION { [n : {n}, S : SUBSET (0..n), mc : 0..MaxMc, mn : Bounds(n), mx : Bounds(n), semi : BOOLEAN] : n \in 1..MaxN }

Init == inst \in Instances
Next == UNCHANGED inst
Spec == Init /\ [][Next]_inst

Built == BuildSpansSeq(inst.n, inst.S, inst.mc, inst.mn, inst.mx, inst.semi)
RefinesReference == SetOf(Built) = Spans(inst.n, inst.S, inst.mc, inst.semi, inst.mn, inst.mx)
YieldsOnce == NoDuplicates(Built)

Parent == <<0, inst.n, inst.mc>>
ProperSub(mn, mx) == { <<s, e, 0>> : <<s, e>> \in { p \in (0..inst.n) \X (0..inst.n) :
                          p[1] < p[2] /\ ~(p[1] = 0 /\ p[2] = inst.n) /\ LenOk(p[1], p[2], mn, mx) } }
NonEnzymaticLaw == LET q == NonEnzymaticSeq(Parent, inst.mn, inst.mx) IN
                   NoDuplicates(q) /\ SetOf(q) = ProperSub(inst.mn, inst.mx)
SemiLaw == LET lq == LeftSemiSeq(Parent, inst.mn, inst.mx)
               rq == RightSemiSeq(Parent, inst.mn, inst.mx) IN
           /\ NoDuplicates(lq) /\ NoDuplicates(rq)
           /\ SetOf(lq) = { <<0, e, inst.mc>> : e \in { x \in 1..(inst.n - 1) : LenOk(0, x, inst.mn, inst.mx) } }
           /\ SetOf(rq) = { <<s, inst.n, inst.mc>> : s \in { x \in 1..(inst.n - 1) : LenOk(x, inst.n, inst.mn, inst.mx) } }
CoverageLaw == LET acc == CoverageSeq(Built, inst.n, TRUE)
                   one == CoverageSeq(Built, inst.n, FALSE) IN
               /\ FoldLeft(LAMBDA a, x : a + x, 0, acc) = FoldLeft(LAMBDA a, sp : a + SpanLen(sp), 0, Built)
               /\ \A p \in 1..inst.n : one[p] = (IF acc[p] > 0 THEN 1 ELSE 0)
==============================================================================
