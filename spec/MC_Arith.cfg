SPECIFICATION Spec
INVARIANT TableIsChemistry
INVARIANT ChargeStep
INVARIANT InternalIsTwoEnds
INVARIANT IsotopeAndLoss
INVARIANT WriteRead
INVARIANT TextCarriers
CHECK_DEADLOCK FALSE
