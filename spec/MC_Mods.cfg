SPECIFICATION Spec
INVARIANT AllResolve
INVARIANT TagsDoNotChangeMass
INVARIANT PositionTagIsZero
INVARIANT InfoIsSkipped
INVARIANT FirstResolvableWins
INVARIANT MultiplierMultiplies
INVARIANT SpellingInvariance
CHECK_DEADLOCK FALSE
