------------------------------ MODULE MC_Sweep -------------------------------
(* Machine layer for C17: the sweep machine (Sweep.tla) checked against       *)
(* Match!Window for every pair of sorted lists on a small grid.               *)
EXTENDS Sweep, TLC
CONSTANTS MaxTheo, MaxObs, Grid, MaxTol

SortedSeqs(n) == UNION { { s \in [1..k -> 0..Grid] : Sorted(s) } : k \in 0..n }

Init == /\ theo \in SortedSeqs(MaxTheo) /\ obs \in SortedSeqs(MaxObs) /\ tol \in 0..MaxTol
        /\ i = 1 /\ lo = 0 /\ hi = 0 /\ pc = "next" /\ out = <<>>
Spec == Init /\ [][Next]_vars
==============================================================================
