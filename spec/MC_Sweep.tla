------------------------------ MODULE MC_Sweep -------------------------------
(* Machine layer for C17: the two-pointer sweep of get_matched_indices        *)
(* (a lower pointer shared by all theoretical values, an upper pointer        *)
(* restarted from it), one action per loop iteration, checked against         *)
(* Match!Window for every pair of sorted lists on a small grid.               *)
EXTENDS Match, TLC
CONSTANTS MaxTheo, MaxObs, Grid, MaxTol
VARIABLES theo, obs, tol, i, lo, hi, pc, out
vars == <<theo, obs, tol, i, lo, hi, pc, out>>

SortedSeqs(n) == UNION { { s \in [1..k -> 0..Grid] : Sorted(s) } : k \in 0..n }

Init == /\ theo \in SortedSeqs(MaxTheo) /\ obs \in SortedSeqs(MaxObs) /\ tol \in 0..MaxTol
        /\ i = 1 /\ lo = 0 /\ hi = 0 /\ pc = "next" /\ out = <<>>

(* "next": start the iteration for theo[i] (or stop) *)
Start == /\ pc = "next" /\ i <= Len(theo)
         /\ IF lo >= Len(obs) THEN /\ out' = Append(out, {}) /\ i' = i + 1 /\ UNCHANGED <<pc, lo, hi>>
            ELSE /\ pc' = "lo" /\ UNCHANGED <<out, i, lo, hi>>
         /\ UNCHANGED <<theo, obs, tol>>
AdvanceLo == /\ pc = "lo"
             /\ IF lo < Len(obs) /\ obs[lo + 1] < theo[i] - tol
                THEN lo' = lo + 1 /\ UNCHANGED <<pc, hi, out, i>>
                ELSE IF lo >= Len(obs) THEN /\ out' = Append(out, {}) /\ i' = i + 1 /\ pc' = "next" /\ UNCHANGED <<lo, hi>>
                ELSE /\ hi' = lo /\ pc' = "hi" /\ UNCHANGED <<lo, out, i>>
             /\ UNCHANGED <<theo, obs, tol>>
ExtendHi == /\ pc = "hi"
            /\ IF hi < Len(obs) /\ obs[hi + 1] <= theo[i] + tol
               THEN hi' = hi + 1 /\ UNCHANGED <<pc, lo, out, i>>
               ELSE /\ out' = Append(out, IF hi - 1 < lo THEN {} ELSE lo..(hi - 1))
                    /\ i' = i + 1 /\ pc' = "next" /\ UNCHANGED <<lo, hi>>
            /\ UNCHANGED <<theo, obs, tol>>
Next == Start \/ AdvanceLo \/ ExtendHi
Spec == Init /\ [][Next]_vars

(* every emitted window is exactly the declarative window *)
Refines == \A q \in 1..Len(out) : out[q] = Window(theo[q], obs, "th", tol)
(* the shared lower pointer never passes a peak a later theoretical value still needs *)
LoSafe == \A q \in i..Len(theo) : \A j \in Window(theo[q], obs, "th", tol) : (q > i \/ pc # "hi") => j >= lo \/ q < i
==============================================================================
