-------------------------------- MODULE Arith --------------------------------
(* The numeric helpers of mass_calc.py as operations of their own (they are   *)
(* reached through mass()/mz()/fragment() by C02, C04, C05; here they are     *)
(* called directly, with every ion type, negative and zero charges, carriers  *)
(* given as text, and precisions):                                            *)
(*   adjust_mass(base, z, ion, mono, isotope, loss, adducts, precision)       *)
(*   adjust_mz(base, z, precision), ppm_error, dalton_error                   *)
(* and the two converters between a carrier text and its dictionary           *)
(*   parse_charge_adducts("+2Na+,+H+") = {"Na+": 2, "H+": 1}                  *)
(*   write_charge_adducts({"Na+": 2, "H+": -1}) = "+2Na+,-H+"                 *)
(* Machine layer: one table entry per ion type, as the code keeps them (the   *)
(* neutral ends of a fragment, and what its FIRST charge carrier adds);       *)
(* MC_Arith checks that table against the chemistry of Fragment.tla, the      *)
(* reference of C05, for every type on which that reference has an opinion.   *)
EXTENDS Notations, Fragment

IonTypes == {"p", "n", "a", "b", "c", "x", "y", "z", "ax", "ay", "az", "bx", "by", "bz", "cx", "cy", "cz", "i"}
Terminal == {"a", "b", "c", "x", "y", "z"}

(* what the two ends of a NEUTRAL fragment of a type add to its bare residues *)
NeutralEnds(t) ==
    CASE t = "p"  -> Water
      [] t = "n"  -> EmptyComp
      [] t = "a"  -> Cmp(<<"H", 1, "O", -1, "C", -1>>)
      [] t = "b"  -> Cmp(<<"H", 1>>)
      [] t = "c"  -> Cmp(<<"H", 2, "N", 1>>)
      [] t = "x"  -> Cmp(<<"O", 2, "C", 1, "H", 1>>)
      [] t = "y"  -> Cmp(<<"O", 1, "H", 1>>)
      [] t = "z"  -> Cmp(<<"N", -1, "O", 1>>)
      [] t = "ax" -> EmptyComp
      [] t = "ay" -> Cmp(<<"O", -1, "C", -1>>)
      [] t = "az" -> Cmp(<<"O", -1, "C", -1, "N", -1, "H", -1>>)
      [] t = "bx" -> Cmp(<<"O", 1, "C", 1>>)
      [] t = "by" -> EmptyComp
      [] t = "bz" -> Cmp(<<"N", -1, "H", -1>>)
      [] t = "cx" -> Cmp(<<"N", 1, "H", 1, "O", 1, "C", 1>>)
      [] t = "cy" -> Cmp(<<"N", 1, "H", 1>>)
      [] t = "cz" -> EmptyComp
      [] t = "i"  -> Cmp(<<"O", -1, "C", -1>>)
(* what the first charge adds: an electron leaves, and the hydrogens the fragment keeps from its neighbour arrive *)
FirstCarrier(t) ==
    CASE t = "n" -> EmptyComp
      [] t \in {"c", "y"} -> Cmp(<<"H", 2, "e", -1>>)
      [] t = "cy" -> Cmp(<<"H", 3, "e", -1>>)
      [] t \in {"p", "ay", "by", "cx", "cz", "i"} -> Cmp(<<"H", 1, "e", -1>>)
      [] OTHER -> Cmp(<<"e", -1>>)

(* the carriers of a call: a text names ALL of them ('+H+' is one proton whatever the charge); without a text a      *)
(* precursor ('p', 'n') carries z protons and a fragment its first carrier and z - 1 protons                        *)
Carriers(z, t, mono, adducts) ==
    IF adducts # "" THEN (IF adducts = "+H+" THEN Proton
                          ELSE FAdd(CompMass(AdductsComp(adducts), mono),
                                    (* recorded finding C02_AdductElectronCount, see Mass!AdductsExcessElectrons *)
                                    FMulInt(Electron, AdductsExcessElectrons(adducts))))
    ELSE IF t \in {"p", "n"} THEN FMulInt(Proton, z)
    ELSE FAdd(FMulInt(Proton, z - 1), CompMass(FirstCarrier(t), mono))

AdjustMass(base, z, t, mono, iso, loss, adducts) ==
    FAdd(FAdd(base, Carriers(z, t, mono, adducts)),
         FAdd(CompMass(NeutralEnds(t), mono), FAdd(FMulInt(Neutron, iso), loss)))

(* ---- the chemistry Fragment.tla states, per type, as a composition added to the bare residues (one proton apart) ---- *)
HasReference(t) == t \in Terminal \cup {"p", "by", "ay", "i"}
ReferenceEnds(t) ==
    CASE t = "p" -> Water
      [] t = "b" -> EmptyComp
      [] t = "a" -> CNeg(CO)
      [] t = "c" -> Ammonia
      [] t = "y" -> Water
      [] t = "x" -> CAdd(Water, CAdd(CO, CNeg(H2)))
      [] t = "z" -> CAdd(Water, CNeg(Ammonia))
      [] t = "by" -> EmptyComp
      [] t = "ay" -> CNeg(CO)
      [] t = "i" -> CNeg(CO)
ProtonAsAtoms == Cmp(<<"H", 1, "e", -1>>)

(* ------------------------ carrier text <-> dictionary ------------------------ *)
Abs(n) == IF n < 0 THEN 0 - n ELSE n
WriteTerm(ion, c) == (IF c < 0 THEN "-" ELSE "+") \o (IF Abs(c) = 1 THEN "" ELSE ToString(Abs(c))) \o ion
WriteAdducts(pairs) == FoldLeft(LAMBDA acc, k : acc \o (IF k = 1 THEN "" ELSE ",") \o WriteTerm(pairs[k][1], pairs[k][2]),
                                "", [ k \in 1..Len(pairs) |-> k ])
(* a term the reader's pattern takes whole: sign? digits* one or two letters digits* one sign *)
ReadableTerm(t) ==
    LET s == IF At(t, 1) \in Signs THEN 2 ELSE 1
        d == SkipWhile(t, s, Digits)
        e == SkipWhile(t, d, Letters) IN
    WellFormedIon(t) /\ e - d \in {1, 2}
TermKey(t) == LET s == IF At(t, 1) \in Signs THEN 2 ELSE 1 IN SubSeq(t, SkipWhile(t, s, Digits), Len(t))
TermCount(t) == LET s == IF At(t, 1) \in Signs THEN 2 ELSE 1
                    d == SkipWhile(t, s, Digits)
                    n == IF d = s THEN 1 ELSE DigitsVal(t, s, d - 1, 0) IN
                IF At(t, 1) = "-" THEN 0 - n ELSE n
ReadableText(text) == LET parts == SplitOn(text, ",") IN \A k \in 1..Len(parts) : ReadableTerm(parts[k])
ReadAdducts(text) ==
    LET parts == SplitOn(text, ",")
        keys == { TermKey(parts[k]) : k \in 1..Len(parts) } IN
    [ x \in keys |-> FoldLeft(LAMBDA acc, k : IF TermKey(parts[k]) = x THEN acc + TermCount(parts[k]) ELSE acc, 0,
                              [ k \in 1..Len(parts) |-> k ]) ]
SumPairs(pairs) ==
    [ x \in { pairs[k][1] : k \in 1..Len(pairs) } |->
        FoldLeft(LAMBDA acc, k : IF pairs[k][1] = x THEN acc + pairs[k][2] ELSE acc, 0, [ k \in 1..Len(pairs) |-> k ]) ]
==============================================================================
