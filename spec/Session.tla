------------------------------- MODULE Session -------------------------------
(* The library as a state machine over one caller-owned annotation object,    *)
(* the auxiliary containers the caller passes in, and process-wide state.     *)
(*   obj   : [ann |-> abstract annotation, has |-> which optional fields are  *)
(*            present (None vs non-None), as the API can observe]             *)
(*   aux   : the caller's auxiliary lists / dicts (canonical text)            *)
(*   glob  : process-wide state [rng, voc, warn]                              *)
(* One action per public call.  A call is a Query (Q) or an explicit Editor   *)
(* (E); the table below is shared verbatim with harness/calls.py.             *)
EXTENDS Annotation

QueryCalls == {
    "serialize", "serialize_plus", "sequence_length", "is_ambiguous", "is_modified", "get_mods",
    "pop_mods_fn", "strip_mods", "reverse_fn", "reverse_fn_swap", "shuffle_fn_seed", "shift_fn",
    "sort_fn", "span_to_sequence", "split_fn", "count_residues_fn", "count_aa",
    "is_subsequence_fn", "is_subsequence_unordered", "find_subsequence_indices",
    "find_subsequence_indices_ignore", "coverage", "percent_coverage", "is_sequence_valid",
    "condense_static_mods_fn", "condense_to_mass_mods", "permutations_fn", "product_fn",
    "combinations_fn", "combinations_wr_fn", "apply_static_mods", "apply_variable_mods", "mass",
    "mass_avg", "mass_b2", "mz", "comp", "comp_mass", "fragment_b", "fragment_by_mass",
    "fragment_losses", "fragment_internal", "fragmenter", "digest_trypsin", "digest_semi",
    "digest_nonspecific", "digest_from_config", "sequential_digest", "get_cleavage_sites",
    "get_left_semi", "get_non_enzymatic", "m_serialize", "m_serialize_parts", "m_dict",
    "m_mod_dict", "m_copy", "m_strip", "m_slice", "m_shift", "m_shuffle_seed", "m_reverse",
    "m_reverse_swap", "m_slice_prefix", "m_slice_suffix", "m_shift_zero", "digest_annotations",
    "fragment_objects_seq", "m_sort", "m_split", "m_count_residues", "m_condense_static",
    "m_is_subsequence", "m_find_indices", "m_permutations", "m_product", "m_combinations",
    "m_combinations_wr", "m_predicates", "m_get_internal", "mod_mass_list", "chem_mass_dict",
    "write_chem_formula", "glycan_comp_dict", "isotopic_distribution", "estimate_comp",
    "apply_isotope_mods_to_composition", "get_losses", "get_matched_indices", "match_spectra",
    "get_fragment_matches", "merge_isotopic_distributions", "parse_static_mods",
    "fix_list_of_mods", "create_annotation", "parse_text",
    "t_parse_chem_formula", "t_chem_mass", "t_mod_comp", "t_mod_mass_avg_rounded", "t_mod_mass_avg", "t_mod_mass_psi",
    "t_comp_labelled_formula", "t_comp_formula", "t_mass_formula", "t_apply_isotope_mods", "t_glycan_comp",
    "t_mass_names", "t_fragment_text", "t_digest_text", "t_add_mods_text", "t_get_mods_text",
    "create_annotation_intervals", "apply_variable_mods_zero", "fragment_objects", "fragmenter_object",
    "mass_isotope_mods_arg", "comp_isotope_mods_arg", "mz_isotope_mods_arg", "digest_enzyme_names", "digest_config_names",
    "sequential_digest_configs", "fragment_b_avg_mass", "fragment_y_mono_mass",
    "write_chem_formula_precision", "write_chem_formula_unsorted", "chem_mass_fractional", "condense_to_mass_mods_precise", "create_multi_annotation", "add_mods_text_dict", "fragment_iterated", "reload_monosaccharides", "t_glycan_synonym"
}
EditorCalls == {
    "pop_labile_mods", "pop_nterm_mods", "pop_charge", "add_nterm_mods_append",
    "add_internal_mod_append", "set_charge", "strip_inplace", "reverse_inplace",
    "condense_static_inplace"
}
CallClass(c) == IF c \in QueryCalls THEN "Q" ELSE IF c \in EditorCalls THEN "E" ELSE "unknown"

(* ---------------------------- editor effects --------------------------- *)
Edit1 == Mod("s:Acetyl", 1)
Edit2 == Mod("f:1.5", 1)
Effect(c, A) ==
    CASE c = "pop_labile_mods" -> [ A EXCEPT !.labile = <<>> ]
      [] c = "pop_nterm_mods" -> [ A EXCEPT !.nterm = <<>> ]
      [] c = "pop_charge" -> [ A EXCEPT !.charge = 0 ]
      [] c = "add_nterm_mods_append" -> [ A EXCEPT !.nterm = @ \o <<Edit1>> ]
      [] c = "add_internal_mod_append" -> [ A EXCEPT !.internal = InternalFrom([ i \in ModifiedIdx(A) \cup {1} |-> ModsAt(A, i) \o (IF i = 1 THEN <<Edit2>> ELSE <<>>) ]) ]
      [] c = "set_charge" -> [ A EXCEPT !.charge = 3 ]
      [] c = "strip_inplace" -> Strip(A)
      [] c = "reverse_inplace" -> ReverseAnn(A, FALSE)
      [] c = "condense_static_inplace" -> A          \* judged on the residue-level fields by C12; here only "static emptied"

(* ------------------------------ the machine ---------------------------- *)
(* state = [obj, aux, glob]; a query leaves it alone, an editor changes obj.ann by Effect *)
QueryStep(s, c) == s
EditorStep(s, c) == [ s EXCEPT !.obj.ann = Effect(c, s.obj.ann) ]
Step(s, c) == IF c \in QueryCalls THEN QueryStep(s, c) ELSE EditorStep(s, c)
==============================================================================
