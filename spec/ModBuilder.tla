------------------------------ MODULE ModBuilder -----------------------------
(* Reference layer for C13: static and variable modification builders.        *)
(* A target rule is a record                                                  *)
(*   [style |-> "letter",     cls |-> set of letters]              "[ST]"     *)
(*   [style |-> "lookbehind", cls |-> .., before |-> set]          "(?<=P)S"  *)
(*   [style |-> "literal2",   a |-> letter, b |-> letter]          "NG" (site = the first letter) *)
(* with mods (static: a sequence of Mod) or groups (variable: a sequence of   *)
(* sequences of Mod).  Terminal rules have cond = {} (always) or a set of     *)
(* letters the terminal residue must belong to.                               *)
EXTENDS Annotation

MatchSites(seq, r) ==
    LET n == Len(seq) IN
    CASE r.style = "letter" -> { i \in 0..(n - 1) : seq[i + 1] \in r.cls }
      [] r.style = "lookbehind" -> { i \in 1..(n - 1) : seq[i + 1] \in r.cls /\ seq[i] \in r.before }
      [] r.style = "literal2" -> { i \in 0..(n - 2) : seq[i + 1] = r.a /\ seq[i + 2] = r.b }

TermApplies(seq, r, atStart) ==
    Len(seq) >= 1 /\ (r.cond = {} \/ (IF atStart THEN seq[1] ELSE seq[Len(seq)]) \in r.cond)

Cat(seqs) == FoldLeft(LAMBDA acc, s : acc \o s, <<>>, seqs)

(* modifications a slot ends up with: orig = what it carried, hits = the matching rules' mods in rule order *)
Resolve(orig, hits, mode) ==
    IF hits = <<>> THEN orig
    ELSE IF orig = <<>> THEN Cat(hits)
    ELSE CASE mode = "skip" -> orig
           [] mode = "append" -> orig \o Cat(hits)
           [] mode = "overwrite" -> hits[Len(hits)]

StaticForm(A, irules, nrules, crules, mode) ==
    LET n == NRes(A)
        Hits(i) == LET rs == SelectSeq(irules, LAMBDA r : i \in MatchSites(A.seq, r)) IN [ k \in 1..Len(rs) |-> rs[k].mods ]
        nh == LET rs == SelectSeq(nrules, LAMBDA r : TermApplies(A.seq, r, TRUE)) IN [ k \in 1..Len(rs) |-> rs[k].mods ]
        ch == LET rs == SelectSeq(crules, LAMBDA r : TermApplies(A.seq, r, FALSE)) IN [ k \in 1..Len(rs) |-> rs[k].mods ] IN
    [ A EXCEPT !.internal = InternalFrom([ i \in 0..(n - 1) |-> Resolve(ModsAt(A, i), Hits(i), mode) ]),
               !.nterm = Resolve(A.nterm, nh, mode),
               !.cterm = Resolve(A.cterm, ch, mode) ]

(* ------------------------- variable modifications ---------------------- *)
(* groups offered at residue i, in rule order *)
Options(A, vrules, i) ==
    Cat(LET rs == SelectSeq(vrules, LAMBDA r : i \in MatchSites(A.seq, r)) IN [ k \in 1..Len(rs) |-> rs[k].groups ])

Eligible(A, vrules) == { i \in 0..(NRes(A) - 1) : ModsAt(A, i) = <<>> /\ Options(A, vrules, i) # <<>> }

(* every assignment site -> option index for a set of sites *)
MaxOpt(A, vrules, S) == LET L == { Len(Options(A, vrules, i)) : i \in S } IN IF L = {} THEN 0 ELSE CHOOSE x \in L : \A y \in L : y <= x
ChoiceFns(A, vrules, S) == { f \in [ S -> 1..MaxOpt(A, vrules, S) ] : \A i \in S : f[i] <= Len(Options(A, vrules, i)) }

WithInternal(A, vrules, S, f) ==
    [ A EXCEPT !.internal = InternalFrom([ i \in 0..(NRes(A) - 1) |->
                                 IF i \in S THEN Options(A, vrules, i)[f[i]] ELSE ModsAt(A, i) ]) ]

(* skip mode: the forms with at most maxMods additional modified residues (a set: each form once) *)
InternalForms(A, vrules, maxMods) ==
    LET E == Eligible(A, vrules) IN
    UNION { { WithInternal(A, vrules, S, f) : f \in ChoiceFns(A, vrules, S) }
            : S \in { T \in SUBSET E : Cardinality(T) <= maxMods } }

(* terminal variants in skip mode: a terminus without modifications may take one group of one applicable rule *)
TermVariants(A, rules, atStart) ==
    IF (IF atStart THEN A.nterm ELSE A.cterm) # <<>> THEN {}
    ELSE UNION { { IF atStart THEN [ A EXCEPT !.nterm = rules[k].groups[g] ] ELSE [ A EXCEPT !.cterm = rules[k].groups[g] ]
                   : g \in 1..Len(rules[k].groups) }
                 : k \in { q \in 1..Len(rules) : TermApplies(A.seq, rules[q], atStart) } }

(* all forms: every combination of (N-terminal variant or none) x (C-terminal variant or none) x internal choice *)
VariableForms(A, vrules, nrules, crules, maxMods) ==
    LET nts == {A} \cup TermVariants(A, nrules, TRUE)
        both == UNION { {X} \cup TermVariants(X, crules, FALSE) : X \in nts } IN
    UNION { InternalForms(X, vrules, maxMods) : X \in both }
==============================================================================
