SPECIFICATION Spec
CONSTANT Deviant = TRUE
PROPERTY NoMutation
INVARIANT WellFormedAlways
CHECK_DEADLOCK FALSE
