SPECIFICATION Spec
INVARIANT HalfLaw
INVARIANT CarbonMean
INVARIANT NitrogenMean
CHECK_DEADLOCK FALSE
