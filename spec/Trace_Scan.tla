----------------------------- MODULE Trace_Scan ------------------------------
(* Conformance of util.get_regex_match_indices / get_regex_match_range /      *)
(* merge_dicts with Scan.tla.                                                 *)
(* k = "indices": seq, rule, offset; out, res (list, in the order yielded)     *)
(* k = "ranges":  seq, rule, offset, compiled (0/1); out, res = <<[s, e]>>     *)
(* k = "merge":   p1, p2 (pairs, distinct keys); out, res (pairs), kept =     *)
(*                the two arguments afterwards                                *)
EXTENDS TraceBase, Scan
VARIABLE l

SetRule(r) == [style |-> r.style, before |-> SeqToSet(r.before), beforeNot |-> SeqToSet(r.beforeNot), after |-> SeqToSet(r.after),
               afterNot |-> SeqToSet(r.afterNot), notAfter |-> SeqToSet(r.notAfter),
               lit |-> [ k \in 1..Len(r.lit) |-> SeqToSet(r.lit[k]) ]]
DistinctKeys(ps) == \A i, j \in 1..Len(ps) : i # j => ps[i][1] # ps[j][1]
IndicesFails(ev) ==
    IF ev.out # "ret" THEN {"raised_" \o ev.out}
    ELSE IF ev.res = IndicesSeq(ev.seq, SetRule(ev.rule), ev.offset) THEN {}
    ELSE IF SeqToSet(ev.res) = SeqToSet(IndicesSeq(ev.seq, SetRule(ev.rule), ev.offset)) THEN {"indices_not_in_scan_order_or_repeated"}
    ELSE {"indices_are_not_the_match_positions_plus_offset"}
RangesFails(ev) ==
    LET want == Ranges(ev.seq, SetRule(ev.rule), ev.offset, ev.compiled = 1)
        got == [ k \in 1..Len(ev.res) |-> <<ev.res[k][1], ev.res[k][2]>> ] IN
    IF ev.out # "ret" THEN {"raised_" \o ev.out}
    ELSE IF got = want THEN {} ELSE {"ranges_are_not_the_matches_plus_offset"}
MergeFails(ev) ==
    IF ev.out # "ret" THEN {"raised_" \o ev.out}
    ELSE (IF DistinctKeys(ev.res) /\ PairMap(ev.res) = Merged(ev.p1, ev.p2) THEN {} ELSE {"merged_dictionary_is_not_the_keywise_sum_without_zeros"})
         \cup (IF ev.kept = <<ev.p1, ev.p2>> THEN {} ELSE {"merge_changed_an_argument"})
Fails(ev) == CASE ev.k = "indices" -> IndicesFails(ev)
               [] ev.k = "ranges" -> RangesFails(ev)
               [] ev.k = "merge" -> MergeFails(ev)
               [] OTHER -> {"unknown_event_kind"}
Detail(ev) == CASE ev.k = "indices" -> <<"spec", IndicesSeq(ev.seq, SetRule(ev.rule), ev.offset)>>
                [] ev.k = "ranges" -> <<"spec", Ranges(ev.seq, SetRule(ev.rule), ev.offset, ev.compiled = 1)>>
                [] ev.k = "merge" -> <<"spec", Merged(ev.p1, ev.p2)>>
                [] OTHER -> <<>>
Init == l = 1 /\ ResetCounters
Next == /\ l <= NEvents
        /\ LET f == Fails(Events[l]) IN RecordD(Events[l], MkVerdict(f, ""), IF f = {} THEN <<>> ELSE Detail(Events[l]))
        /\ l' = l + 1
Spec == Init /\ [][Next]_l
Post == PrintT(Totals) /\ TLCGet(1) + TLCGet(2) + TLCGet(3) = NEvents
==============================================================================
