------------------------------ MODULE MC_Arith -------------------------------
(* Laws of Arith.tla, per ion type t, charge z and mode:                       *)
(*  - TableIsChemistry: where Fragment.tla (reference of C05) has an opinion,  *)
(*    ends + first carrier = reference ends + one proton, atom for atom;       *)
(*  - ChargeStep: one more charge is one more proton, for every type;          *)
(*  - InternalIsTwoEnds: an internal type "ef" differs from "by" by what its   *)
(*    two letters differ from b and from y as terminal types, up to hydrogens  *)
(*    (the code keeps the heavy atoms of both ends; the hydrogens of internal  *)
(*    x / z ends are its own convention and are NOT asserted);                 *)
(*  - text carriers: write then read returns the summed dictionary.            *)
EXTENDS Arith
VARIABLES t, z, mono

Init == t \in IonTypes /\ z \in 1..4 /\ mono \in BOOLEAN
Next == UNCHANGED <<t, z, mono>>
Spec == Init /\ [][Next]_<<t, z, mono>>

TableIsChemistry == HasReference(t) => CAdd(NeutralEnds(t), FirstCarrier(t)) = CAdd(ReferenceEnds(t), ProtonAsAtoms)
Base == <<1000, 123456789>>
ChargeStep == FSub(AdjustMass(Base, z + 1, t, mono, 0, FZero, ""), AdjustMass(Base, z, t, mono, 0, FZero, "")) = Proton
Heavy(c) == Clean([ s \in DOMAIN c \ {"H", "e"} |-> c[s] ])
InternalIsTwoEnds ==
    Len(t) = 2 => LET e == SubSeq(t, 1, 1)  f == SubSeq(t, 2, 2) IN
                  Heavy(NeutralEnds(t)) = Heavy(CAdd(CAdd(NeutralEnds(e), CNeg(NeutralEnds("b"))),
                                                     CAdd(NeutralEnds(f), CNeg(NeutralEnds("y")))))
IsotopeAndLoss == AdjustMass(Base, z, t, mono, 2, <<-18, 989435000>>, "")
                  = FAdd(AdjustMass(Base, z, t, mono, 0, FZero, ""), FAdd(FMulInt(Neutron, 2), <<-18, 989435000>>))
Ions == <<"Na+", "H+", "Mg2+", "e-", "I-">>
WriteRead == (t = "p" /\ mono) =>
    \A i, j \in 1..Len(Ions), c \in {-3, -1, 1, 2, 12} :
        LET pairs == <<<<Ions[i], c>>, <<Ions[j], z>>>>
            text == WriteAdducts(pairs) IN
        /\ ReadableText(text)
        /\ ReadAdducts(text) = SumPairs(pairs)
TextCarriers == (t = "p") =>
    /\ AdjustMass(Base, z, t, mono, 0, FZero, "+H+") = AdjustMass(Base, 1, t, mono, 0, FZero, "")
    /\ AdjustMass(Base, z, t, mono, 0, FZero, "+Na+,+H+")
         = FAdd(FAdd(Base, CompMass(Water, mono)), FAdd(CompMass(Cmp(<<"Na", 1, "e", -1>>), mono), CompMass(ProtonAsAtoms, mono)))
==============================================================================
