---------------------------- MODULE Trace_Random -----------------------------
(* X04: the annotations the library's own randomizers build (compliance       *)
(* levels 1 and 2, top-down, cross-linking, glycan, spectrum decorations)     *)
(* against the parser machine: the text the library writes for such an        *)
(* annotation is accepted by ParserMachine and denotes exactly the annotation *)
(* the library holds (ev.A = its projection), and the library's own parse of  *)
(* the text denotes it too (ev.parsed, compared field by field).              *)
EXTENDS TraceBase, ParserMachine
VARIABLE l

Fails(ev) ==
    IF ev.out # "ret" THEN {"raised_" \o ev.out}
    ELSE LET o == Outcome(ev.text) IN
         (IF o.cls # "accept" THEN {"machine_rejects_the_written_text"}
          ELSE IF Len(o.chains) # 1 \/ o.links # <<>> THEN {"machine_reads_several_chains"}
          ELSE { "machine_reads_another_" \o d : d \in Diff(o.chains[1], ev.A) })
         \cup (IF ~ev.parsedOk THEN {"library_rejects_its_own_text"}
               ELSE { "library_reads_another_" \o d : d \in Diff(ev.parsed, ev.A) })
Detail(ev) == IF ev.out = "ret" /\ Outcome(ev.text).cls = "accept" THEN <<"machine", Outcome(ev.text).chains>> ELSE <<>>
Init == l = 1 /\ ResetCounters
Next == /\ l <= NEvents
        /\ LET f == Fails(Events[l]) IN RecordD(Events[l], MkVerdict(f, ""), IF f = {} THEN <<>> ELSE Detail(Events[l]))
        /\ l' = l + 1
Spec == Init /\ [][Next]_l
Post == PrintT(Totals) /\ TLCGet(1) + TLCGet(2) + TLCGet(3) = NEvents
==============================================================================
