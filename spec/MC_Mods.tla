------------------------------- MODULE MC_Mods -------------------------------
(* Stage A for C10: laws of the modification semantics on a small vocabulary. *)
EXTENDS Mods, TLC
VARIABLES v, k
Base == {"Oxidation", "U:Oxidation", "UNIMOD:35", "u:35", "MOD:00046", "M:O-phospho-L-serine", "Formula:C2H4",
         "Formula:[13C2]H-1", "Glycan:HexNAc2Hex", "Obs:+1.5", "U:+15.995", "Label:13C(6)", "U:Label:13C(6)", "X:DSS",
         "XLMOD:02001"}
Init == v \in Base /\ k \in 1..3
Next == UNCHANGED <<v, k>>
Spec == Init /\ [][Next]_<<v, k>>
M(t) == SemMass(Sem("s:" \o t), TRUE)
Ok(t) == Sem("s:" \o t).ok
AllResolve == Ok(v)
TagsDoNotChangeMass == Ok(v \o "#g1") /\ M(v \o "#g1") = M(v) /\ M(v \o "#s1(0.5)") = M(v)
PositionTagIsZero == M("#g1") = FZero
InfoIsSkipped == ~Ok("INFO:x") /\ M("INFO:x|" \o v) = M(v) /\ M(v \o "|INFO:x") = M(v)
FirstResolvableWins == M(v \o "|Obs:+99") = M(v)
MultiplierMultiplies == SemMass(SemMod([v |-> "s:" \o v, m |-> k]), TRUE) = FMulInt(M(v), k)
SpellingInvariance == /\ M("Oxidation") = M("U:Oxidation") /\ M("U:Oxidation") = M("UNIMOD:35") /\ M("unimod:35") = M("U:35")
                      /\ M("MOD:00046") = M("M:O-phospho-L-serine") /\ M("O-phospho-L-serine") = M("PSI-MOD:00046")
                      /\ M("Label:13C(6)") = M("U:Label:13C(6)") /\ M("X:DSS") = M("XLMOD:02001")
==============================================================================
