---------------------------- MODULE ProFormaText -----------------------------
(* Reference layer: the ProForma 2.0 text of an abstract annotation.          *)
(* Canonical order: labile {..}, static <..@..>, isotope <..>, unknown [..]?, *)
(* N-term [..]-, residues with interval brackets and residue mods, C-term     *)
(* -[..], charge /z, adducts [..]; multiplier ^n only for n >= 2.             *)
(* Texts are TLA+ strings (Len, SubSeq and \o work on strings in TLC).        *)
EXTENDS Annotation

Ch(t, i) == SubSeq(t, i, i)

Tag(v)  == SubSeq(v, 1, 1)               \* "i" | "f" | "s"
Body(v) == SubSeq(v, 3, Len(v))          \* the value text as Python's str() prints it

IsNumeric(v) == Tag(v) \in {"i", "f"}
IsZeroText(b) == b \in {"0", "0.0", "-0.0", "-0"}
IsPositive(v) == IsNumeric(v) /\ Ch(Body(v), 1) # "-" /\ ~IsZeroText(Body(v))

ValText(v, plus) == IF plus /\ IsPositive(v) THEN "+" \o Body(v) ELSE Body(v)

ModText(m, open, close, plus) ==
    open \o ValText(m.v, plus) \o close \o (IF m.m > 1 THEN "^" \o ToString(m.m) ELSE "")

Join(strs) == FoldLeft(LAMBDA acc, s : acc \o s, "", strs)

ModsText(mods, open, close, plus) == Join([ k \in 1..Len(mods) |-> ModText(mods[k], open, close, plus) ])

WriteStart(A, plus) ==
    ModsText(A.labile, "{", "}", plus)
    \o ModsText(A.static, "<", ">", plus)
    \o ModsText(A.isotope, "<", ">", plus)
    \o (IF Len(A.unknown) > 0 THEN ModsText(A.unknown, "[", "]", plus) \o "?" ELSE "")
    \o (IF Len(A.nterm) > 0 THEN ModsText(A.nterm, "[", "]", plus) \o "-" ELSE "")

(* what is written in front of residue position p (0-based; p = n is the end of the sequence) *)
Closings(A, p, plus) ==
    Join([ k \in 1..Len(A.intervals) |->
             IF A.intervals[k].e = p THEN ")" \o ModsText(A.intervals[k].mods, "[", "]", plus) ELSE "" ])
Openings(A, p) ==
    Join([ k \in 1..Len(A.intervals) |->
             IF A.intervals[k].s = p THEN "(" \o (IF A.intervals[k].amb THEN "?" ELSE "") ELSE "" ])

WriteMiddle(A, plus) ==
    Join([ q \in 1..NRes(A) |->
             Closings(A, q - 1, plus) \o Openings(A, q - 1) \o A.seq[q] \o ModsText(ModsAt(A, q - 1), "[", "]", plus) ])
    \o Closings(A, NRes(A), plus)

ChargeText(z, zplus) == IF z = 0 THEN "" ELSE "/" \o (IF zplus /\ z > 0 THEN "+" ELSE "") \o ToString(z)

WriteEnd(A, plus, zplus) ==
    (IF Len(A.cterm) > 0 THEN "-" \o ModsText(A.cterm, "[", "]", plus) ELSE "")
    \o ChargeText(A.charge, zplus)
    \o ModsText(A.adducts, "[", "]", plus)

(* the canonical text *)
Write(A, plus) == WriteStart(A, plus) \o WriteMiddle(A, plus) \o WriteEnd(A, plus, FALSE)

(* another documented spelling of the same annotation: explicit plus signs on mass shifts and/or on the charge *)
WriteV(A, plus, zplus) == WriteStart(A, plus) \o WriteMiddle(A, plus) \o WriteEnd(A, plus, zplus)

(* chains joined by "+" (link FALSE) or "//" (link TRUE); Len(links) = Len(chains) - 1 *)
WriteMulti(chains, links, plus, zplus) ==
    Join([ k \in 1..Len(chains) |->
             WriteV(chains[k], plus, zplus) \o (IF k < Len(chains) THEN (IF links[k] THEN "//" ELSE "+") ELSE "") ])
==============================================================================
