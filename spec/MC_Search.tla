------------------------------ MODULE MC_Search ------------------------------
(* Machine layer for C16: the regex scan of the stripped target, as the code  *)
(* performs it (find the next match at or after the cursor, then move the     *)
(* cursor), in both variants: resuming one past the match start (overlapped)  *)
(* or at the match end (non-overlapped).  TLC shows the overlapped scan       *)
(* refines Search!Occurrences and gives the shortest witness on which the     *)
(* non-overlapped scan does not (e.g. AA in AAA).                             *)
EXTENDS Search, TLC
CONSTANTS MaxT, MaxQ, Overlapped
VARIABLES T, Q, cur, found, done
vars == <<T, Q, cur, found, done>>
Alpha == {"A", "K"}
Strings(n) == UNION { [1..k -> Alpha] : k \in 0..n }
Init == /\ T \in Strings(MaxT) /\ Q \in (Strings(MaxQ) \ {<<>>})
        /\ cur = 0 /\ found = {} /\ done = FALSE
MatchAt(s) == s + Len(Q) <= Len(T) /\ SubSeq(T, s + 1, s + Len(Q)) = Q
NextMatch == { s \in cur..Len(T) : MatchAt(s) /\ \A r \in cur..(s - 1) : ~MatchAt(r) }
Scan == /\ ~done /\ NextMatch # {}
        /\ LET s == CHOOSE x \in NextMatch : TRUE IN
           /\ found' = found \cup {s}
           /\ cur' = IF Overlapped THEN s + 1 ELSE s + Len(Q)
        /\ UNCHANGED <<T, Q, done>>
Finish == /\ ~done /\ NextMatch = {} /\ done' = TRUE /\ UNCHANGED <<T, Q, cur, found>>
Next == Scan \/ Finish
Spec == Init /\ [][Next]_vars
Refines == done => found = Occurrences(EmptyAnn(Q), EmptyAnn(T), TRUE)
==============================================================================
