-------------------------------- MODULE Chem ---------------------------------
(* Compositions, formula text, and masses from the independent Nist table.    *)
(* A composition is a function  symbol -> count, counts scaled by 10^4 ("E4") *)
(* so that decimal counts with up to four places are exact integers; entries  *)
(* with count 0 are dropped.  Symbols: element symbols, isotopes ("13C",      *)
(* "2H", "D", "T") and the particles "e", "p", "n".                           *)
EXTENDS Nist, FiniteSets, SequencesExt, TLC

E4 == 10000

Chars(s) == { SubSeq(s, i, i) : i \in 1..Len(s) }
Digits == Chars("0123456789")
Uppers == Chars("ABCDEFGHIJKLMNOPQRSTUVWXYZ")
Lowers == Chars("abcdefghijklmnopqrstuvwxyz")
DigitVal(c) == CHOOSE d \in 0..9 : SubSeq("0123456789", d + 1, d + 1) = c
At(t, i) == IF i >= 1 /\ i <= Len(t) THEN SubSeq(t, i, i) ELSE ""

(* first position >= i whose character is not in S (Len(t)+1 if none) *)
RECURSIVE SkipWhile(_, _, _)
SkipWhile(t, i, S) == IF i <= Len(t) /\ At(t, i) \in S THEN SkipWhile(t, i + 1, S) ELSE i

RECURSIVE DigitsVal(_, _, _, _)
DigitsVal(t, i, j, acc) == IF i > j THEN acc ELSE DigitsVal(t, i + 1, j, acc * 10 + DigitVal(At(t, i)))

(* a count text: "" (= 1), or [-]digits[.digits]; value scaled by 10^4 (at most four decimals are meaningful) *)
IsCountText(t) ==
    \/ t = ""
    \/ LET s == IF At(t, 1) \in {"-", "+"} THEN 2 ELSE 1
           d == SkipWhile(t, s, Digits) IN
       /\ \/ d > s
          \/ (At(t, d) = "." /\ SkipWhile(t, d + 1, Digits) > d + 1)
       /\ \/ d = Len(t) + 1
          \/ (At(t, d) = "." /\ SkipWhile(t, d + 1, Digits) = Len(t) + 1 /\ Len(t) - d <= 4)
CountE4(t) ==
    IF t = "" THEN E4
    ELSE LET neg == At(t, 1) = "-"
             s == IF At(t, 1) \in {"-", "+"} THEN 2 ELSE 1
             d == SkipWhile(t, s, Digits)
             ip == DigitsVal(t, s, d - 1, 0)
             nf == IF d <= Len(t) THEN Len(t) - d ELSE 0           \* number of fraction digits
             fr == IF nf = 0 THEN 0 ELSE DigitsVal(t, d + 1, Len(t), 0)
             scale == CASE nf = 0 -> 0 [] nf = 1 -> 1000 [] nf = 2 -> 100 [] nf = 3 -> 10 [] nf = 4 -> 1
             v == ip * E4 + fr * scale IN
         IF neg THEN 0 - v ELSE v

(* -------------------------- compositions ------------------------------ *)
EmptyComp == [ s \in {} |-> 0 ]
Clean(c) == [ s \in { x \in DOMAIN c : c[x] # 0 } |-> c[s] ]
Get(c, s) == IF s \in DOMAIN c THEN c[s] ELSE 0
CAdd(a, b) == Clean([ s \in DOMAIN a \cup DOMAIN b |-> Get(a, s) + Get(b, s) ])
CScale(a, k) == Clean([ s \in DOMAIN a |-> a[s] * k ])       \* k a plain integer
CNeg(a) == CScale(a, -1)
CSum(seqOfComps) == FoldLeft(LAMBDA acc, c : CAdd(acc, c), EmptyComp, seqOfComps)
(* from a sequence of <<symbol, countE4>> pairs (repeated symbols accumulate) *)
CompFromPairs(ps) == CSum([ k \in 1..Len(ps) |-> [ s \in {ps[k][1]} |-> ps[k][2] ] ])
(* integer-count literal helper: Cmp(<<"C", 2, "H", 4>>) *)
Cmp(flat) == CompFromPairs([ k \in 1..(Len(flat) \div 2) |-> <<flat[2 * k - 1], flat[2 * k] * E4>> ])

(* ------------------------------ masses -------------------------------- *)
IsIsotopeSym(s) == At(s, 1) \in Digits \/ s \in {"D", "T"}
KnownMono(s) == s \in MonoSymbols
KnownAvg(s)  == s \in AvgSymbols
(* every chemical element symbol (periodic table, Z = 1..118); D and T are the hydrogen isotopes' own symbols      *)
AllElementSymbols == {
    "H", "He", "Li", "Be", "B", "C", "N", "O", "F", "Ne", "Na", "Mg", "Al", "Si", "P", "S", "Cl", "Ar", "K", "Ca",
    "Sc", "Ti", "V", "Cr", "Mn", "Fe", "Co", "Ni", "Cu", "Zn", "Ga", "Ge", "As", "Se", "Br", "Kr", "Rb", "Sr", "Y", "Zr",
    "Nb", "Mo", "Tc", "Ru", "Rh", "Pd", "Ag", "Cd", "In", "Sn", "Sb", "Te", "I", "Xe", "Cs", "Ba", "La", "Ce", "Pr", "Nd",
    "Pm", "Sm", "Eu", "Gd", "Tb", "Dy", "Ho", "Er", "Tm", "Yb", "Lu", "Hf", "Ta", "W", "Re", "Os", "Ir", "Pt", "Au", "Hg",
    "Tl", "Pb", "Bi", "Po", "At", "Rn", "Fr", "Ra", "Ac", "Th", "Pa", "U", "Np", "Pu", "Am", "Cm", "Bk", "Cf", "Es", "Fm",
    "Md", "No", "Lr", "Rf", "Db", "Sg", "Bh", "Hs", "Mt", "Ds", "Rg", "Cn", "Nh", "Fl", "Mc", "Lv", "Ts", "Og", "D", "T" }
(* the element of a composition key: "13C" -> "C"; particles stand for themselves *)
ElementOf(sym) == LET d == SkipWhile(sym, 1, Digits) IN SubSeq(sym, d, Len(sym))
RealSymbols(c) == \A s \in DOMAIN c : s \in {"e", "p", "n"} \/ ElementOf(s) \in AllElementSymbols
Resolvable(c, mono) == \A s \in DOMAIN c : IF mono THEN KnownMono(s) ELSE KnownAvg(s)

(* x / 10^4 for a Fix number (exact to 1e-9, truncating) *)
FDivE4(x) == LET neg == x[1] < 0
                 a == IF neg THEN FNeg(x) ELSE x
                 q == <<a[1] \div E4, (a[1] % E4) * 100000 + a[2] \div E4>> IN
             IF neg THEN FNeg(q) ELSE q

RECURSIVE FSumSet(_, _)
FSumSet(S, c) == IF S = {} THEN FZero
                ELSE LET s == CHOOSE x \in S : TRUE IN FAdd(c[s], FSumSet(S \ {s}, c))

(* mass of a composition: monoisotopic, or average (isotope-labelled symbols keep their isotope mass) *)
CompMass(c, mono) ==
    FSumSet(DOMAIN c, [ s \in DOMAIN c |->
        IF c[s] % E4 = 0 THEN FMulInt(AtomMass(s, mono), c[s] \div E4)
        ELSE FDivE4(FMulInt(AtomMass(s, mono), c[s])) ])

(* --------------------------- formula text ----------------------------- *)
(* Grammar:  formula ::= ( "[" [massnumber] Symbol count "]" | Symbol count )*                              *)
(*           Symbol  ::= Upper Lower* | "e" | "p" | "n" ;  count ::= "" | [-]digits[.digits]                *)
(* ParseFormula returns <<ok, composition>>                                                                 *)
CountChars == Digits \cup {"-", "."}
SymbolEnd(t, i) == IF At(t, i) \in Uppers THEN SkipWhile(t, i + 1, Lowers)
                   ELSE IF At(t, i) \in {"e", "p", "n"} THEN i + 1 ELSE i

RECURSIVE ParseFrom(_, _, _)
ParseFrom(t, i, acc) ==
    IF i > Len(t) THEN <<TRUE, acc>>
    ELSE IF At(t, i) = "["
    THEN LET m0 == i + 1
             m1 == SkipWhile(t, m0, Digits)                    \* mass number m0..m1-1
             s1 == SymbolEnd(t, m1)
             c1 == SkipWhile(t, s1, CountChars) IN
         IF s1 = m1 \/ At(t, c1) # "]" \/ ~IsCountText(SubSeq(t, s1, c1 - 1)) THEN <<FALSE, acc>>
         ELSE ParseFrom(t, c1 + 1, CAdd(acc, [ s \in {SubSeq(t, m0, s1 - 1)} |-> CountE4(SubSeq(t, s1, c1 - 1)) ]))
    ELSE LET s1 == SymbolEnd(t, i)
             c1 == SkipWhile(t, s1, CountChars) IN
         IF s1 = i \/ ~IsCountText(SubSeq(t, s1, c1 - 1)) THEN <<FALSE, acc>>
         ELSE ParseFrom(t, c1, CAdd(acc, [ s \in {SubSeq(t, i, s1 - 1)} |-> CountE4(SubSeq(t, s1, c1 - 1)) ]))

ParseFormula(t) == ParseFrom(t, 1, EmptyComp)

(* --------------------- first-principles chemistry --------------------- *)
Water   == Cmp(<<"H", 2, "O", 1>>)
Ammonia == Cmp(<<"N", 1, "H", 3>>)
CO      == Cmp(<<"C", 1, "O", 1>>)
H2      == Cmp(<<"H", 2>>)

(* amino-acid residues (amino acid minus water), written from chemistry *)
Residue(aa) ==
    CASE aa = "G" -> Cmp(<<"C", 2, "H", 3, "N", 1, "O", 1>>)
      [] aa = "A" -> Cmp(<<"C", 3, "H", 5, "N", 1, "O", 1>>)
      [] aa = "S" -> Cmp(<<"C", 3, "H", 5, "N", 1, "O", 2>>)
      [] aa = "P" -> Cmp(<<"C", 5, "H", 7, "N", 1, "O", 1>>)
      [] aa = "V" -> Cmp(<<"C", 5, "H", 9, "N", 1, "O", 1>>)
      [] aa = "T" -> Cmp(<<"C", 4, "H", 7, "N", 1, "O", 2>>)
      [] aa = "C" -> Cmp(<<"C", 3, "H", 5, "N", 1, "O", 1, "S", 1>>)
      [] aa \in {"L", "I", "J"} -> Cmp(<<"C", 6, "H", 11, "N", 1, "O", 1>>)
      [] aa = "N" -> Cmp(<<"C", 4, "H", 6, "N", 2, "O", 2>>)
      [] aa = "D" -> Cmp(<<"C", 4, "H", 5, "N", 1, "O", 3>>)
      [] aa = "Q" -> Cmp(<<"C", 5, "H", 8, "N", 2, "O", 2>>)
      [] aa = "K" -> Cmp(<<"C", 6, "H", 12, "N", 2, "O", 1>>)
      [] aa = "E" -> Cmp(<<"C", 5, "H", 7, "N", 1, "O", 3>>)
      [] aa = "M" -> Cmp(<<"C", 5, "H", 9, "N", 1, "O", 1, "S", 1>>)
      [] aa = "H" -> Cmp(<<"C", 6, "H", 7, "N", 3, "O", 1>>)
      [] aa = "F" -> Cmp(<<"C", 9, "H", 9, "N", 1, "O", 1>>)
      [] aa = "R" -> Cmp(<<"C", 6, "H", 12, "N", 4, "O", 1>>)
      [] aa = "Y" -> Cmp(<<"C", 9, "H", 9, "N", 1, "O", 2>>)
      [] aa = "W" -> Cmp(<<"C", 11, "H", 10, "N", 2, "O", 1>>)
      [] aa = "U" -> Cmp(<<"C", 3, "H", 5, "N", 1, "O", 1, "Se", 1>>)
      [] aa = "O" -> Cmp(<<"C", 12, "H", 19, "N", 3, "O", 2>>)
      [] aa = "X" -> EmptyComp
MassLetters == {"G","A","S","P","V","T","C","L","I","J","N","D","Q","K","E","M","H","F","R","Y","W","U","O","X"}

ResiduesComp(seq) == CSum([ k \in 1..Len(seq) |-> Residue(seq[k]) ])
==============================================================================
