---------------------------- MODULE Trace_Digest -----------------------------
(* Trace validation for C06: every event is one call of the real code        *)
(* (get_cleavage_sites / build_spans / digest / digest_from_config /          *)
(* sequential_digest) with its projected result; TLC decides whether the      *)
(* result is one that Digest.tla allows.                                      *)
EXTENDS TraceBase, Digest, SequencesExt
VARIABLE l


RuleOf(j) ==
    IF j.name # "" THEN Protease(j.name)
    ELSE IF j.style = "zero"
         THEN ZeroRule(SeqToSet(j.before), SeqToSet(j.beforeNot), SeqToSet(j.after), SeqToSet(j.afterNot),
                       SeqToSet(j.notAfter))
    ELSE IF j.style = "consuming"
         THEN [style |-> "consuming", lit |-> [ i \in 1..Len(j.lit) |-> SeqToSet(j.lit[i]) ]]
    ELSE IF j.style = "mixed"
         THEN [style |-> "mixed", lit |-> <<SeqToSet(j.lit[1])>>, after |-> SeqToSet(j.after)]
    ELSE [style |-> j.style]

RulesOf(js) == [ i \in 1..Len(js) |-> RuleOf(js[i]) ]

(* ---- k = "sites": get_cleavage_sites(seq, rule) returned the list ev.res ---- *)
SitesFails(ev) ==
    LET want == Sites(ev.seq, RuleOf(ev.rule))
        got  == SeqToSet(ev.res)
    IN  (IF ev.out # "ret" THEN {"raised"} ELSE {})
        \cup (IF got \ want # {} THEN {"extra_site"} ELSE {})
        \cup (IF want \ got # {} THEN {"missing_site"} ELSE {})

(* ---- k = "spans": build_spans(n, sites, mc, mn, mx, semi) returned ev.res ---- *)
SpansFails(ev) ==
    LET S    == SeqToSet(ev.sites)
        got  == SeqToSet(ev.res)
        want == Spans(ev.n, S, ev.mc, ev.semi = 1, ev.mn, ev.mx)
    IN  (IF ev.out # "ret" THEN {"raised"} ELSE {})
        \cup (IF got \ want # {} THEN {"extra_span"} ELSE {})
        \cup (IF want \ got # {} THEN {"missing_span"} ELSE {})
        \cup (IF Cardinality(got) # Len(ev.res) THEN {"duplicate_span"} ELSE {})

(* ---- k = "digest": the front end.  ev.res is a list of items              *)
(*      [span |-> <<s,e,k>> or <<>>, str |-> chars or <<>>]                   *)
Sub(seq, sp) == SubSeq(seq, sp[1] + 1, sp[2])

(* span sets the statement admits for this call *)
Admissible(ev) ==
    LET n == Len(ev.seq)
        W == DigestSpans(ev.seq, RulesOf(ev.rules), ev.mc, ev.semi = 1, ev.mn, ev.mx)
        whole0 == <<0, n, 0>>
        wholeK == <<0, n, Inside(n, SitesOfRules(ev.seq, RulesOf(ev.rules)), 0, n)>>
    IN  IF ev.complete = 1 THEN {W}
        ELSE IF n = 0 THEN {{}, {whole0}}
        ELSE (* partial digestion adds the undigested sequence; the statement does not fix its value *)
             {W \cup {whole0}, W \cup {wholeK}, W \cup {whole0, wholeK}}

ItemsMatch(ev, A) ==
    LET res == ev.res
        sorted == SetToSortSeq(A, SpanLess)
        hasSpan == ev.rt \in {"span", "str-span", "annotation-span"}
        hasStr  == ev.rt # "span"
    IN  /\ Len(res) = Cardinality(A)
        /\ hasSpan => /\ { res[i].span : i \in 1..Len(res) } = A
                      /\ ev.sort = 1 => \A i \in 1..Len(res) : res[i].span = sorted[i]
        /\ (hasSpan /\ hasStr) => \A i \in 1..Len(res) : res[i].str = Sub(ev.seq, res[i].span)
        /\ (hasStr /\ ~hasSpan) =>
               IF ev.sort = 1 THEN \A i \in 1..Len(res) : res[i].str = Sub(ev.seq, sorted[i])
               ELSE BagOfSeq([ i \in 1..Len(res) |-> res[i].str ]) = BagOfSeq([ i \in 1..Len(res) |-> Sub(ev.seq, sorted[i]) ])

DigestFails(ev) ==
    IF ev.out # "ret" THEN {"raised"}
    ELSE IF \E A \in Admissible(ev) : ItemsMatch(ev, A) THEN {}
    ELSE LET A == CHOOSE X \in Admissible(ev) : TRUE
             got == { ev.res[i].span : i \in 1..Len(ev.res) } IN
         IF ev.rt \in {"span", "str-span", "annotation-span"}
         THEN (IF got \ UNION Admissible(ev) # {} THEN {"extra_peptide"} ELSE {})
              \cup (IF A \ got # {} THEN {"missing_peptide"} ELSE {})
              \cup {"digest_mismatch"}
         ELSE {"digest_mismatch"}

(* Named deviation (known finding): when the union of the rules marks every position 0..n, digest() *)
(* takes the non-specific shortcut although no rule is the non-specific one.                        *)
Dev_C06_AllSitesShortcut(ev) ==
    /\ ev.k = "digest" /\ ev.out = "ret"
    /\ ~IsNonSpecific(RulesOf(ev.rules))
    /\ Len(ev.seq) > 0
    /\ AllSites(Len(ev.seq), SitesOfRules(ev.seq, RulesOf(ev.rules)))
    /\ LET n == Len(ev.seq)
           W == NonSpecific(n, ev.mn, ev.mx)
           A == IF ev.complete = 1 THEN W ELSE W \cup {<<0, n, 0>>} IN
       ItemsMatch(ev, A)

(* ---- k = "seqdigest": sequential_digest with complete, zero-missed-cleavage stages ---- *)
(*      must equal the simultaneous digest with all rules (as a set of spans)              *)
SeqDigestFails(ev) ==
    LET allrules == RulesOf(ev.rules)     \* all stages' rules, flattened
        want == DigestSpans(ev.seq, allrules, 0, FALSE, ev.mn, ev.mx)
        got  == { <<ev.res[i].span[1], ev.res[i].span[2]>> : i \in 1..Len(ev.res) }
        w2   == { <<sp[1], sp[2]>> : sp \in want }
    IN  IF IsNonSpecific(allrules) THEN {}   \* a non-specific stage yields overlapping peptides: no clause
        ELSE IF ev.out # "ret" THEN {"raised"}
        ELSE (IF got \ w2 # {} THEN {"seq_extra"} ELSE {})
             \cup (IF w2 \ got # {} THEN {"seq_missing"} ELSE {})
             \cup (IF Len(ev.res) # Cardinality(got) THEN {"seq_duplicate"} ELSE {})

Dev_C06_SeqAllSites(ev) ==
    (* same shortcut inside a stage of a sequential digest: a stage fragment all of whose positions are sites *)
    /\ ev.k = "seqdigest" /\ ev.out = "ret"
    /\ \E st \in 1..Len(ev.stages) :
         LET rs == RulesOf(ev.stages[st]) IN
         /\ ~IsNonSpecific(rs)
         /\ \E s \in 0..Len(ev.seq), e \in 0..Len(ev.seq) :
              /\ s < e
              /\ AllSites(e - s, SitesOfRules(SubSeq(ev.seq, s + 1, e), rs))

Fails(ev) == CASE ev.k = "spans" -> SpansFails(ev)
               [] ev.k = "sites" -> SitesFails(ev)
               [] ev.k = "digest" -> DigestFails(ev)
               [] ev.k = "seqdigest" -> SeqDigestFails(ev)
               [] OTHER -> {"unknown_event_kind"}

Dev(ev) == IF "C06_AllSitesShortcut" \in Devs /\ ev.k = "digest" /\ Dev_C06_AllSitesShortcut(ev)
              THEN "C06_AllSitesShortcut"
           ELSE IF "C06_AllSitesShortcut" \in Devs /\ ev.k = "seqdigest" /\ Dev_C06_SeqAllSites(ev)
              THEN "C06_AllSitesShortcut"
           ELSE ""

Init == l = 1 /\ ResetCounters
Next == /\ l <= NEvents
        /\ LET f == Fails(Events[l]) IN Record(Events[l], MkVerdict(f, IF f = {} THEN "" ELSE Dev(Events[l])))
        /\ l' = l + 1
Spec == Init /\ [][Next]_l
Post == PrintT(Totals) /\ TLCGet(1) + TLCGet(2) + TLCGet(3) = NEvents
==============================================================================
