---------------------------- MODULE Trace_Parser -----------------------------
(* Trace validation for C09: the parser is total.                             *)
(* k = "bucket": all strings of one enumeration shard that had the same       *)
(*     outcome; ev.outcome = [cls, isv, ser] where cls = "ret" | "hang" |     *)
(*     exception class, isv = 1 iff a ValueError (sub)class, ser = outcome of *)
(*     serialising the returned value ("ok" | "exc:<Class>" | "na"),          *)
(*     ev.valid = what is_sequence_valid did ("bool" | "exc:<Class>"),        *)
(*     ev.count = number of strings, ev.witness = some of them.               *)
(* k = "deferred": a syntactically valid string with one modification value   *)
(*     in one slot; ev.v = the value; ev.parse / ev.mass / ev.comp outcomes.  *)
EXTENDS TraceBase, Mass
VARIABLE l

BucketFails(ev) ==
    LET o == ev.outcome IN
    (IF o.cls = "hang" THEN {"parser_hangs"} ELSE {})
    \cup (IF o.cls \notin {"ret", "hang"} /\ o.isv = 0 THEN {"parser_raises_" \o o.cls} ELSE {})
    \cup (IF o.cls = "ret" /\ o.ser # "ok" THEN {"accepted_string_cannot_be_serialized_" \o o.ser} ELSE {})
    \cup (IF ev.valid # "bool" THEN {"is_sequence_valid_" \o ev.valid} ELSE {})

(* deferred validation: the string parses; if the value has no meaning, mass and composition raise a ValueError *)
(* strict events: hand-written values, known to be valid notation and fully inside the spec's vocabulary.         *)
StrictFails(ev) ==
    LET sm0 == Sem(ev.v)
        (* a formula over an unknown element symbol has no mass *)
        sm == [ sm0 EXCEPT !.ok = sm0.ok /\ Resolvable(sm0.comp, TRUE) ]
        hasComp == sm0.ok IN
    (IF ev.parse.cls # "ret" THEN {"syntactically_valid_string_rejected_" \o ev.parse.cls} ELSE {})
    \cup (IF ~sm.ok /\ ev.parse.cls = "ret" /\ ev.mass.cls = "ret" THEN {"unresolvable_modification_silently_given_a_mass"} ELSE {})
    \cup (IF ~sm.ok /\ ev.parse.cls = "ret" /\ ev.mass.cls # "ret" /\ ev.mass.isv = 0 THEN {"mass_raises_" \o ev.mass.cls} ELSE {})
    \cup (IF ~hasComp /\ ev.parse.cls = "ret" /\ ev.comp.cls = "ret" THEN {"unresolvable_modification_silently_given_a_composition"} ELSE {})
    \cup (IF ev.parse.cls = "ret" /\ ev.comp.cls # "ret" /\ ev.comp.isv = 0 THEN {"comp_raises_" \o ev.comp.cls} ELSE {})
    \cup (IF sm.ok /\ ev.parse.cls = "ret" /\ ev.mass.cls # "ret" THEN {"resolvable_modification_rejected_by_mass"} ELSE {})

(* generated values (strict = FALSE): prefix x arbitrary pieces.  Whether the string is notation at all is the        *)
(* parser's call, but every answer is a ValueError.  The spec's grammar of numbers, Formula:, Glycan:, Obs:, INFO:     *)
(* is what the notation defines; Python's float() and the library accept a little more (" +15.99", ".35"), and the     *)
(* spec's element / vocabulary tables are subsets - so, as the statement says, the defect is a value WITHOUT meaning    *)
(* that is silently counted as zero (mass / composition of the unmodified peptide comes back), and a value WITH        *)
(* meaning that is rejected.  Judged when the annotation holds the value as written and its meaning does not depend    *)
(* on a vocabulary lookup.                                                                                             *)
VocabPrefixes == {"u", "unimod", "m", "mod", "psi-mod", "x", "xlmod", "r", "resid", "g", "gno"}
AltGrammarDefined(t0) ==
    LET t == StripTag(t0) IN
    \/ At(t0, 1) = "#" \/ IsDecimalText(t)
    \/ PrefixOf(t) \in {"formula", "glycan", "obs", "info"}
    \/ (PrefixOf(t) \in VocabPrefixes /\ At(BodyOf(t), 1) \in {"+", "-"})
GrammarDefined(v) == LET alts == SplitBar(SubSeq(v, 3, Len(v))) IN \A k \in 1..Len(alts) : AltGrammarDefined(alts[k])
GeneratedFails(ev) ==
    LET sm0 == Sem(ev.v)
        meaningless == ~sm0.ok \/ ~RealSymbols(sm0.comp)
        meaningful == sm0.ok /\ Resolvable(sm0.comp, TRUE)
        judged == ev.parse.cls = "ret" /\ ev.held /\ GrammarDefined(ev.v) IN
    (IF ev.parse.cls # "ret" /\ ev.parse.isv = 0 THEN {"parser_raises_" \o ev.parse.cls} ELSE {})
    \cup (IF ev.parse.cls = "ret" /\ ev.mass.cls # "ret" /\ ev.mass.isv = 0 THEN {"mass_raises_" \o ev.mass.cls} ELSE {})
    \cup (IF ev.parse.cls = "ret" /\ ev.comp.cls # "ret" /\ ev.comp.isv = 0 THEN {"comp_raises_" \o ev.comp.cls} ELSE {})
    \cup (IF judged /\ meaningless /\ ev.mass.cls = "ret" /\ ev.massUnchanged
          THEN {"unresolvable_modification_silently_counted_as_zero_mass"} ELSE {})
    \cup (IF judged /\ meaningless /\ ev.comp.cls = "ret" /\ ev.compUnchanged
          THEN {"unresolvable_modification_silently_counted_as_empty_composition"} ELSE {})
    \cup (IF judged /\ meaningful /\ ev.mass.cls # "ret" THEN {"resolvable_modification_rejected_by_mass"} ELSE {})
DeferredFails(ev) == (IF ev.strict THEN StrictFails(ev) ELSE GeneratedFails(ev))
                     \cup (IF ~ev.massSame THEN {"mass_of_the_same_text_changes_between_calls"} ELSE {})

(* global isotope labels: a label is [massnumber]Element (or D / T) for an element of the table *)
IsLabel(t) == \/ t \in {"D", "T"}
              \/ LET d == SkipWhile(t, 1, Digits) IN d > 1 /\ d <= Len(t) /\ t \in MonoSymbols
DeferredLabelFails(ev) ==
    (IF ev.parse.cls # "ret" THEN {"syntactically_valid_string_rejected_" \o ev.parse.cls} ELSE {})
    \cup (IF ~IsLabel(ev.label) /\ ev.parse.cls = "ret" /\ ev.mass.cls = "ret" THEN {"unresolvable_isotope_label_silently_ignored"} ELSE {})
    \cup (IF ev.parse.cls = "ret" /\ ev.mass.cls # "ret" /\ ev.mass.isv = 0 THEN {"mass_raises_" \o ev.mass.cls} ELSE {})
    \cup (IF ev.parse.cls = "ret" /\ ev.comp.cls # "ret" /\ ev.comp.isv = 0 THEN {"comp_raises_" \o ev.comp.cls} ELSE {})
    \cup (IF IsLabel(ev.label) /\ ev.parse.cls = "ret" /\ ev.mass.cls # "ret" THEN {"valid_isotope_label_rejected"} ELSE {})

(* charge adducts: comma separated terms [+-][count]Symbol[charge count][+-] over the element table (or e) *)
IsAdductTerm(t) ==
    LET s == IF At(t, 1) \in {"+", "-"} THEN 2 ELSE 1
        d == SkipWhile(t, s, Digits)
        e == SkipWhile(t, d, Uppers \cup Lowers)
        q == SkipWhile(t, e, Digits) IN
    /\ e > d /\ (SubSeq(t, d, e - 1) \in MonoSymbols \/ SubSeq(t, d, e - 1) = "e")
    /\ q = Len(t) /\ At(t, q) \in {"+", "-"}
RECURSIVE SplitComma(_)
SplitComma(t) == LET S == { i \in 1..Len(t) : At(t, i) = "," } IN
                 IF S = {} THEN <<t>> ELSE LET b == CHOOSE i \in S : \A j \in S : i <= j IN
                 <<SubSeq(t, 1, b - 1)>> \o SplitComma(SubSeq(t, b + 1, Len(t)))
IsAdducts(t) == t # "" /\ \A k \in 1..Len(SplitComma(t)) : IsAdductTerm(SplitComma(t)[k])
DeferredAdductFails(ev) ==
    (IF ev.parse.cls # "ret" /\ ev.parse.isv = 0 THEN {"parser_raises_" \o ev.parse.cls} ELSE {})
    \cup (IF ~IsAdducts(ev.adduct) /\ ev.parse.cls = "ret" /\ ev.mass.cls = "ret" THEN {"unresolvable_adduct_silently_given_a_mass"} ELSE {})
    \cup (IF ev.parse.cls = "ret" /\ ev.mass.cls # "ret" /\ ev.mass.isv = 0 THEN {"mass_raises_" \o ev.mass.cls} ELSE {})
    \cup (IF ev.parse.cls = "ret" /\ ev.comp.cls # "ret" /\ ev.comp.isv = 0 THEN {"comp_raises_" \o ev.comp.cls} ELSE {})
    \cup (IF IsAdducts(ev.adduct) /\ ev.parse.cls = "ret" /\ ev.mass.cls # "ret" THEN {"valid_adducts_rejected"} ELSE {})

(* global rules "<...@targets>": a rule without a bracketed modification means nothing and must not be accepted     *)
(* silently by the calculators (ev.rule = tagged rule text)                                                           *)
DeferredRuleFails(ev) ==
    LET r == StaticRule(ev.rule)
        empty == r.mods = <<>> IN
    (IF ev.parse.cls # "ret" /\ ev.parse.isv = 0 THEN {"parser_raises_" \o ev.parse.cls} ELSE {})
    \cup (IF ev.parse.cls = "ret" /\ ev.mass.cls # "ret" /\ ev.mass.isv = 0 THEN {"mass_raises_" \o ev.mass.cls} ELSE {})
    \cup (IF ev.parse.cls = "ret" /\ ev.comp.cls # "ret" /\ ev.comp.isv = 0 THEN {"comp_raises_" \o ev.comp.cls} ELSE {})
    \cup (IF empty /\ ev.parse.cls = "ret" /\ ev.mass.cls = "ret" /\ ev.massUnchanged
          THEN {"global_rule_without_a_modification_silently_ignored"} ELSE {})
    \cup (IF ~empty /\ SemSum(r.mods).ok /\ ev.parse.cls = "ret" /\ ev.mass.cls # "ret" THEN {"valid_global_rule_rejected"} ELSE {})
    (* a rule that reaches the peptide with a modification nobody can weigh: mass and composition are refused *)
    \cup (IF ~empty /\ ~SemSum(r.mods).ok /\ ev.parse.cls = "ret"
             /\ (\E q \in 1..Len(r.targets) : r.targets[q] \in {"N-Term", "C-Term"} \/ r.targets[q] \in {"P", "E", "M", "T", "I", "D"})
          THEN (IF ev.mass.cls = "ret" THEN {"unresolvable_rule_silently_ignored_by_mass"} ELSE {})
               \cup (IF ev.comp.cls = "ret" THEN {"unresolvable_rule_silently_ignored_by_composition"} ELSE {})
          ELSE {})
    (* whether the rule reaches any residue of the peptide is one fact: mass and composition cannot disagree about it *)
    \cup (IF ev.mass.cls = "ret" /\ ev.comp.cls = "ret" /\ ev.massUnchanged # ev.compUnchanged
          THEN {"mass_and_composition_disagree_whether_the_rule_applies"} ELSE {})
Fails(ev) == CASE ev.k = "bucket" -> BucketFails(ev)
               [] ev.k = "deferred_rule" -> DeferredRuleFails(ev)
               [] ev.k = "deferred_label" -> DeferredLabelFails(ev)
               [] ev.k = "deferred_adduct" -> DeferredAdductFails(ev)
               [] ev.k = "deferred" -> DeferredFails(ev)
               [] OTHER -> {"unknown_event_kind"}
Dev(ev) == ""
Init == l = 1 /\ ResetCounters
Next == /\ l <= NEvents
        /\ LET f == Fails(Events[l]) IN Record(Events[l], MkVerdict(f, IF f = {} THEN "" ELSE Dev(Events[l])))
        /\ l' = l + 1
Spec == Init /\ [][Next]_l
Post == PrintT(Totals) /\ TLCGet(1) + TLCGet(2) + TLCGet(3) = NEvents
==============================================================================
