SPECIFICATION Spec
CONSTANTS
  MaxN = 5
  MaxMc = 3
INVARIANT RefinesReference
INVARIANT YieldsOnce
INVARIANT NonEnzymaticLaw
INVARIANT SemiLaw
INVARIANT CoverageLaw
CHECK_DEADLOCK FALSE
