----------------------------- MODULE Trace_Spans -----------------------------
(* Conformance of the real span builders (peptacular.spans) with the machine  *)
(* of Spans.tla: the generator's output, item by item and in order.           *)
(* mn / mx = -1 stand for None.  ev.res = list of [s, e, v] (or of counts).   *)
EXTENDS TraceBase, Spans
VARIABLE l

SetOfList(xs) == { xs[k] : k \in 1..Len(xs) }
Want(ev) == CASE ev.k = "nonenz" -> NonEnzymaticSeq(ev.sp, ev.mn, ev.mx)
              [] ev.k = "left"   -> LeftSemiSeq(ev.sp, ev.mn, ev.mx)
              [] ev.k = "right"  -> RightSemiSeq(ev.sp, ev.mn, ev.mx)
              [] ev.k = "enz"    -> EnzymaticSeq(ev.n, SetOfList(ev.sites), ev.mc, ev.mn, ev.mx)
              [] ev.k = "semi"   -> SemiSeq(ev.spans, ev.mn, ev.mx)
              [] ev.k = "build"  -> BuildSpansSeq(ev.n, SetOfList(ev.sites), ev.mc, ev.mn, ev.mx, ev.semi)
              [] ev.k = "cover"  -> CoverageSeq(ev.spans, ev.n, ev.acc)
Known == {"nonenz", "left", "right", "enz", "semi", "build", "cover"}
Fails(ev) ==
    IF ev.k \notin Known THEN {"unknown_event_kind"}
    ELSE IF ev.out # "ret" THEN {"raised_" \o ev.out}
    ELSE LET w == Want(ev) IN
         IF ev.res = w THEN {}
         ELSE IF ev.k # "cover" /\ SetOfList(ev.res) = SetOfList(w) /\ Len(ev.res) = Len(w) THEN {"same_spans_in_another_order"}
         ELSE IF ev.k # "cover" /\ SetOfList(ev.res) = SetOfList(w) THEN {"a_span_is_yielded_twice"}
         ELSE {"output_differs_from_the_machine"}
         (* what build_spans returns is also what the reference of C06 demands *)
         \cup (IF ev.k = "build" /\ ev.n >= 1 /\ SetOfList(ev.res) # Spans(ev.n, SetOfList(ev.sites), ev.mc, ev.semi, ev.mn, ev.mx)
               THEN {"not_the_spans_the_reference_demands"} ELSE {})
Detail(ev) == IF ev.k \in Known THEN <<"machine", Want(ev)>> ELSE <<>>
Init == l = 1 /\ ResetCounters
Next == /\ l <= NEvents
        /\ LET f == Fails(Events[l]) IN RecordD(Events[l], MkVerdict(f, ""), IF f = {} THEN <<>> ELSE Detail(Events[l]))
        /\ l' = l + 1
Spec == Init /\ [][Next]_l
Post == PrintT(Totals) /\ TLCGet(1) + TLCGet(2) + TLCGet(3) = NEvents
==============================================================================
