SPECIFICATION Spec
CONSTANTS
  MaxLen = 7
INVARIANT LeftmostLaw
INVARIANT OffsetLaw
INVARIANT MergeLaw
CHECK_DEADLOCK FALSE
