SPECIFICATION Spec
CONSTANTS
  MaxLen = 5
INVARIANT AgreesWithReference
INVARIANT AcceptsOnlyIons
INVARIANT LabelLaw
CHECK_DEADLOCK FALSE
