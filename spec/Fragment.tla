------------------------------ MODULE Fragment -------------------------------
(* Reference layer for C04 / C05: which fragment ions exist, how they are     *)
(* numbered and labelled, and the chemistry relating the ion series.          *)
EXTENDS Mass

Forward   == {"a", "b", "c"}
Backward  == {"x", "y", "z"}
InternalT == {"ax", "ay", "az", "bx", "by", "bz", "cx", "cy", "cz"}
AllTypes  == Forward \cup Backward \cup InternalT \cup {"i"}

(* spans (0-based start, exclusive end) of the ions of one type for a peptide of n residues *)
SpansOf(t, n) ==
    CASE t \in Forward  -> { <<0, e>> : e \in 1..n }
      [] t \in Backward -> { <<s, n>> : s \in 0..(n - 1) }
      [] t \in InternalT -> { <<s, e>> : s \in 1..(n - 1), e \in 1..(n - 1) } \cap { p \in (0..n) \X (0..n) : p[1] < p[2] }
      [] t = "i" -> { <<i, i + 1>> : i \in 0..(n - 1) }

(* ion number as text: b_k k = end; y_k k = n - start; internal "s-e"; immonium: start *)
NumberText(t, n, s, e) ==
    CASE t \in Forward -> ToString(e)
      [] t \in Backward -> ToString(n - s)
      [] t \in InternalT -> ToString(s) \o "-" \o ToString(e)
      [] t = "i" -> ToString(s)

RECURSIVE Repeat(_, _)
Repeat(c, k) == IF k <= 0 THEN "" ELSE c \o Repeat(c, k - 1)
LabelText(t, z, num, lossText, iso) ==
    Repeat("+", z) \o t \o num \o (IF lossText = "" THEN "" ELSE "(" \o lossText \o ")") \o Repeat("*", iso)

(* ------------------------------ losses -------------------------------- *)
(* a loss rule = [cls |-> set of residue letters, val |-> loss in 1e-6 Da (integer)];                     *)
(* every matching residue of the fragment offers that loss once; up to maxLosses offers may be combined     *)
(* a rule may look at the edge of the ION (its own residues, not the peptide's): edge = "any" | "first" ('^[..]') |  *)
(* "last" ('[..]$') | "notafterA" ('(?<!A)[..]': not preceded, inside the ion, by A)                                   *)
EdgeOk(edge, fragSeq, p) == CASE edge = "first" -> p = 1
                              [] edge = "last" -> p = Len(fragSeq)
                              [] edge = "notafterA" -> p = 1 \/ fragSeq[p - 1] # "A"
                              [] OTHER -> TRUE
Offers(fragSeq, rules) ==   \* sequence of offered loss values, one per (rule, matching residue)
    FoldLeft(LAMBDA acc, r : acc \o [ k \in 1..Cardinality({ p \in 1..Len(fragSeq) : fragSeq[p] \in r.cls /\ EdgeOk(r.edge, fragSeq, p) })
                                     |-> r.val ],
             <<>>, rules)
RECURSIVE SubsetSums(_, _, _)
(* sums of the sub-multisets with at most `left` elements of offers[i..] *)
SubsetSums(offers, i, left) ==
    IF i > Len(offers) \/ left = 0 THEN {0}
    ELSE SubsetSums(offers, i + 1, left) \cup { offers[i] + x : x \in SubsetSums(offers, i + 1, left - 1) }
ApplicableLosses(fragSeq, rules, maxLosses) == SubsetSums(Offers(fragSeq, rules), 1, maxLosses) \cup {0}

(* the ions a fragmenter call must return, as keys <<type, start, end, charge, isotope, loss>> *)
ExpectedKeys(seq, types, charges, isotopes, rules, maxLosses) ==
    LET n == Len(seq) IN
    UNION { { <<t, sp[1], sp[2], z, k, lo>> :
                z \in charges, k \in isotopes, lo \in ApplicableLosses(SubSeq(seq, sp[1] + 1, sp[2]), rules, maxLosses) }
            : <<t, sp>> \in { q \in types \X ((0..n) \X (0..n)) : q[2] \in SpansOf(q[1], n) } }

(* --------------------------- series chemistry -------------------------- *)
(* mass of residues s+1..e with their own modifications, plus terminal modifications when the span has the terminus *)
SpanSem(A, s, e) ==
    LET n == NRes(A)
        res == SemComp(ResiduesComp(SubSeq(A.seq, s + 1, e)))
        inner == FoldLeft(LAMBDA acc, en : IF en.i >= s /\ en.i < e THEN SemAdd(acc, SemSum(en.mods)) ELSE acc, SemZero, A.internal)
        nt == IF s = 0 THEN SemSum(A.nterm) ELSE SemZero
        ct == IF e = n THEN SemSum(A.cterm) ELSE SemZero IN
    SemAdd(SemAdd(res, inner), SemAdd(nt, ct))
SpanMass(A, s, e, mono) == SemMass(SpanSem(A, s, e), mono)

(* singly charged reference ions *)
BIon(A, e, mono) == FAdd(SpanMass(A, 0, e, mono), Proton)
YIon(A, s, mono) == FAdd(FAdd(SpanMass(A, s, NRes(A), mono), CompMass(Water, mono)), Proton)
BYInternal(A, s, e, mono) == FAdd(SpanMass(A, s, e, mono), Proton)
Immonium(A, i, mono) == FAdd(FSub(SpanMass(A, i, i + 1, mono), CompMass(CO, mono)), Proton)

(* offsets between series (ion to ion, same charge) *)
OffA(mono) == FNeg(CompMass(CO, mono))                              \* a = b - CO
OffC(mono) == CompMass(Ammonia, mono)                               \* c = b + NH3
OffX(mono) == FSub(CompMass(CO, mono), CompMass(H2, mono))          \* x = y + CO - H2
OffZ(mono) == FNeg(CompMass(Ammonia, mono))                         \* z = y - NH3
EndOff(t, mono)   == CASE t = "a" -> OffA(mono) [] t = "b" -> FZero [] t = "c" -> OffC(mono)
StartOff(t, mono) == CASE t = "x" -> OffX(mono) [] t = "y" -> FZero [] t = "z" -> OffZ(mono)
==============================================================================
