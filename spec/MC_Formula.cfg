SPECIFICATION Spec
INVARIANT RoundTrip
INVARIANT Additive
INVARIANT CountTexts
CHECK_DEADLOCK FALSE
