------------------------------ MODULE MC_Inputs ------------------------------
(* Laws of Inputs.tla on every input tree of depth <= 2 with <= 2 items per   *)
(* list over three leaves (a value, a Mod, None):                             *)
(*  - Idempotent: what a normaliser returns, given back as a list of Mods,    *)
(*    is returned unchanged;                                                  *)
(*  - Embedding: a value, the list of that value, and the list of the list    *)
(*    of that value all normalise to the same groups;                         *)
(*  - every Mod of a result comes from a leaf of the input, multiplier kept.  *)
EXTENDS Inputs, TLC
VARIABLE x
Leaves == { [t |-> "v", v |-> "s:a", m |-> 1, items |-> <<>>], [t |-> "m", v |-> "i:3", m |-> 2, items |-> <<>>],
            [t |-> "x", v |-> "", m |-> 1, items |-> <<>>] }
L(items) == [t |-> "l", v |-> "", m |-> 1, items |-> items]
Lists1 == { L(s) : s \in UNION { [1..n -> Leaves] : n \in 0..2 } }
Lists2 == { L(s) : s \in UNION { [1..n -> Leaves \cup Lists1] : n \in 0..2 } }
Init == x \in Leaves \cup Lists1 \cup Lists2
Next == UNCHANGED x
Spec == Init /\ [][Next]_x
AsInput(mods) == L([ k \in 1..Len(mods) |-> [t |-> "m", v |-> mods[k].v, m |-> mods[k].m, items |-> <<>>] ])
Idempotent == /\ (FixList(x).ok => FixList(AsInput(FixList(x).r)) = FixList(x))
              /\ (FixListList(x).ok /\ Len(FixListList(x).r) > 1 =>
                    FixListList(L([ k \in 1..Len(FixListList(x).r) |-> AsInput(FixListList(x).r[k]) ])) = FixListList(x))
Embedding == IsVal(x) => /\ FixList(x) = FixList(L(<<x>>))
                         /\ FixListList(x) = FixListList(L(<<x>>))
                         /\ FixListList(x) = FixListList(L(<<L(<<x>>)>>))
RECURSIVE LeafMods(_)
LeafMods(y) == IF IsVal(y) THEN {ModOf(y)} ELSE IF y.t = "l" THEN UNION { LeafMods(y.items[k]) : k \in 1..Len(y.items) } ELSE {}
FromLeaves == FixListList(x).ok => \A g \in 1..Len(FixListList(x).r) : \A k \in 1..Len(FixListList(x).r[g]) :
                  FixListList(x).r[g][k] \in LeafMods(x)
==============================================================================
