---------------------------- MODULE Trace_Inputs -----------------------------
(* Conformance of the real input normalisers with Inputs.tla.                 *)
(* k = "mod" | "list" | "listlist": x (input tree); out, res; touched = the   *)
(*      input as projected AFTER every Mod of the result was edited in place  *)
(*      (the result shares nothing with what was given); kept = the input as  *)
(*      projected before                                                      *)
(* k = "interval": s, e, amb, x; out, res = [s, e, amb, mods]                 *)
(* k = "drop": groups; res = remove_empty_list_of_list_of_mods(groups)        *)
EXTENDS TraceBase, Inputs
VARIABLE l

Cls(ev) == IF ev.out = "ret" THEN "ret" ELSE IF ev.out = "ValueError" THEN "ValueError" ELSE "other"
Shape(ev, want, got) ==
    IF Cls(ev) = "other" THEN {"raised_" \o ev.out}
    ELSE IF want.ok /\ Cls(ev) # "ret" THEN {"accepted_input_rejected"}
    ELSE IF ~want.ok /\ Cls(ev) = "ret" THEN {"invalid_input_accepted"}
    ELSE IF want.ok /\ got # want.r THEN {"normalised_differently"}
    ELSE {}
Shares(ev) == IF ev.out = "ret" /\ ev.touched # ev.kept THEN {"result_shares_objects_with_the_input"} ELSE {}
Fails(ev) == CASE ev.k = "mod" -> Shape(ev, ToMod(ev.x), ev.res) \cup Shares(ev)
               [] ev.k = "list" -> Shape(ev, FixList(ev.x), ev.res) \cup Shares(ev)
               [] ev.k = "listlist" -> Shape(ev, FixListList(ev.x), ev.res) \cup Shares(ev)
               [] ev.k = "interval" -> Shape(ev, FixInterval(ev.s, ev.e, ev.amb, ev.x), ev.res) \cup Shares(ev)
               [] ev.k = "drop" -> (IF ev.out # "ret" THEN {"raised_" \o ev.out}
                                    ELSE IF ev.res = DropEmptyGroups(ev.groups) THEN {} ELSE {"empty_groups_not_dropped"})
               [] OTHER -> {"unknown_event_kind"}
Detail(ev) == CASE ev.k = "mod" -> <<"spec", ToMod(ev.x)>>
                [] ev.k = "list" -> <<"spec", FixList(ev.x)>>
                [] ev.k = "listlist" -> <<"spec", FixListList(ev.x)>>
                [] ev.k = "interval" -> <<"spec", FixInterval(ev.s, ev.e, ev.amb, ev.x)>>
                [] OTHER -> <<>>
Init == l = 1 /\ ResetCounters
Next == /\ l <= NEvents
        /\ LET f == Fails(Events[l]) IN RecordD(Events[l], MkVerdict(f, ""), IF f = {} THEN <<>> ELSE Detail(Events[l]))
        /\ l' = l + 1
Spec == Init /\ [][Next]_l
Post == PrintT(Totals) /\ TLCGet(1) + TLCGet(2) + TLCGet(3) = NEvents
==============================================================================
