---------------------------- MODULE Trace_Foreign ----------------------------
(* Conformance of the real converters / FASTA reader with Foreign.tla.        *)
(* Inputs are the ones MC_Foreign wrote out (spec -> code direction).         *)
(* k = "convert": which, text, out = [cls, val] of the real converter         *)
(* k = "convlaw": which, A, text = WriteForeign(A) (from TLC), conv = real    *)
(*                converter output, pout / parsed = real parse of conv        *)
(* k = "fasta":   lines, sep, via; res = entries the real reader returned     *)
EXTENDS TraceBase, Foreign
VARIABLE l

Convert(which, t) == CASE which = "ip2" -> ConvertIp2(t)
                       [] which = "diann" -> ConvertDiann(t)
                       [] which = "casanovo" -> ConvertCasanovo(t)
ConvertFails(ev) ==
    IF ev.out.cls # "ret" THEN {"converter_raised_" \o ev.out.cls}
    ELSE IF ev.out.val # Convert(ev.which, ev.text) THEN {"converter_output_differs_from_machine"} ELSE {}
LawFails(ev) ==
    (IF ev.out.cls # "ret" THEN {"converter_raised_" \o ev.out.cls}
     ELSE IF ev.out.val # Convert(ev.which, ev.text) THEN {"converter_output_differs_from_machine"} ELSE {})
    \cup (IF ev.pout # "ret" THEN {"converted_text_rejected_by_parser"}
          ELSE { "parsed_" \o d : d \in Diff(ev.parsed, ev.A) })
FastaFails(ev) ==
    IF ev.out # "ret" THEN {"reader_raised_" \o ev.out}
    ELSE IF ev.res # FastaRun(ev.lines) THEN {"entries_differ_from_line_machine"} ELSE {}
Fails(ev) == CASE ev.k = "convert" -> ConvertFails(ev)
               [] ev.k = "convlaw" -> LawFails(ev)
               [] ev.k = "fasta" -> FastaFails(ev)
               [] OTHER -> {"unknown_event_kind"}
Detail(ev) == CASE ev.k \in {"convert", "convlaw"} -> <<"machine", Convert(ev.which, ev.text)>>
                [] ev.k = "fasta" -> <<"machine", FastaRun(ev.lines)>>
                [] OTHER -> <<>>
Init == l = 1 /\ ResetCounters
Next == /\ l <= NEvents
        /\ LET f == Fails(Events[l]) IN RecordD(Events[l], MkVerdict(f, ""), IF f = {} THEN <<>> ELSE Detail(Events[l]))
        /\ l' = l + 1
Spec == Init /\ [][Next]_l
Post == PrintT(Totals) /\ TLCGet(1) + TLCGet(2) + TLCGet(3) = NEvents
==============================================================================
