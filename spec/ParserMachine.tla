---------------------------- MODULE ParserMachine ----------------------------
(* Machine layer for C01 / C09: peptacular's three-phase cursor parser        *)
(* (_ProFormaParser) as a state machine over the characters of the input.     *)
(* One operator per branch of the code; Step(s) performs one loop iteration   *)
(* of the phase the machine is in.  The state is a record                     *)
(*   txt, pos (1-based index of the next character), phase                    *)
(*   phase \in "start" | "middle" | "end" | "accept" | "reject"               *)
(*   A      the annotation being accumulated (abstract form)                  *)
(*   neg    modifications seen before any residue in the middle phase (the    *)
(*          code files them under index -1; the serializer never writes them) *)
(*   iv     <<>> or the open interval [s, amb]                                *)
(*   chains completed chains, links their connections                         *)
(*   err    the reason of a rejection (a format error or a plain ValueError)  *)
(* Values are classified like util.convert_type for decimal literals          *)
(* ([+-]digits -> int, [+-]digits.digits -> float, anything else -> string);  *)
(* literals such as "1e5", "inf", "1_0" are outside the model's alphabet.     *)
EXTENDS ProFormaText, Chem

AminoAcids == Chars("ACDEFGHIKLMNPQRSTVWYUOXJBZ")

IndexOfChar(t, c) == LET S == { i \in 1..Len(t) : At(t, i) = c } IN IF S = {} THEN 0 ELSE CHOOSE i \in S : \A j \in S : i <= j
IndexOfDot(t) == IndexOfChar(t, ".")

(* ----------------------------- values ---------------------------------- *)
IsIntText(t) == LET s == IF At(t, 1) \in {"+", "-"} THEN 2 ELSE 1 IN
                t # "" /\ s <= Len(t) /\ SkipWhile(t, s, Digits) = Len(t) + 1
IsFloatText(t) == LET s == IF At(t, 1) \in {"+", "-"} THEN 2 ELSE 1
                      d == SkipWhile(t, s, Digits) IN
                  /\ ~IsIntText(t) /\ At(t, d) = "." /\ SkipWhile(t, d + 1, Digits) = Len(t) + 1
                  /\ (d > s \/ Len(t) > d)
RECURSIVE StripZeros(_)
StripZeros(t) == IF Len(t) > 1 /\ At(t, 1) = "0" THEN StripZeros(SubSeq(t, 2, Len(t))) ELSE t
RECURSIVE StripTrailingZeros(_)
StripTrailingZeros(t) == IF Len(t) > 1 /\ At(t, Len(t)) = "0" THEN StripTrailingZeros(SubSeq(t, 1, Len(t) - 1)) ELSE t
(* canonical text of an int literal, as Python's str(int(t)) prints it *)
IntCanon(t) == LET neg == At(t, 1) = "-"
                   body == StripZeros(IF At(t, 1) \in {"+", "-"} THEN SubSeq(t, 2, Len(t)) ELSE t) IN
               IF body = "0" THEN "0" ELSE (IF neg THEN "-" ELSE "") \o body
(* canonical text of a decimal float literal with few digits, as repr(float(t)) prints it *)
FloatCanon(t) == LET neg == At(t, 1) = "-"
                     u == IF At(t, 1) \in {"+", "-"} THEN SubSeq(t, 2, Len(t)) ELSE t
                     d == IndexOfDot(u)
                     ip == StripZeros(IF d = 1 THEN "0" ELSE SubSeq(u, 1, d - 1))
                     fr == StripTrailingZeros(IF d = Len(u) THEN "0" ELSE SubSeq(u, d + 1, Len(u))) IN
                 (IF neg THEN "-" ELSE "") \o ip \o "." \o fr
(* Python's int() / float() ignore surrounding blanks *)
RECURSIVE Trim(_)
Trim(t) == IF Len(t) > 0 /\ At(t, 1) = " " THEN Trim(SubSeq(t, 2, Len(t)))
           ELSE IF Len(t) > 0 /\ At(t, Len(t)) = " " THEN Trim(SubSeq(t, 1, Len(t) - 1)) ELSE t
TagOf(t) == IF IsIntText(Trim(t)) THEN "i:" \o IntCanon(Trim(t))
            ELSE IF IsFloatText(Trim(t)) THEN "f:" \o FloatCanon(Trim(t))
            ELSE "s:" \o t

(* ------------------------ bracket groups ------------------------------ *)
(* matching closer of the opener at position i (nesting counted for that bracket pair only); 0 if unmatched *)
(* inside "<...>" a "[...]" group is opaque: "<" and ">" in it do not count ("<[Met->Hse]@M>"); sq = its depth      *)
RECURSIVE CloserScan(_, _, _, _, _, _)
CloserScan(t, i, depth, open, close, sq) ==
    IF i > Len(t) THEN 0
    ELSE IF open = "<" /\ At(t, i) = "[" THEN CloserScan(t, i + 1, depth, open, close, sq + 1)
    ELSE IF open = "<" /\ At(t, i) = "]" /\ sq > 0 THEN CloserScan(t, i + 1, depth, open, close, sq - 1)
    ELSE IF sq > 0 THEN CloserScan(t, i + 1, depth, open, close, sq)
    ELSE IF At(t, i) = open THEN CloserScan(t, i + 1, depth + 1, open, close, sq)
    ELSE IF At(t, i) = close THEN (IF depth = 1 THEN i ELSE CloserScan(t, i + 1, depth - 1, open, close, sq))
    ELSE CloserScan(t, i + 1, depth, open, close, sq)
CloserFrom(t, i, depth, open, close) == CloserScan(t, i, depth, open, close, 0)

(* one modification starting at the opener at position i: [ok, mod, next, err] *)
ParseMod(t, i, open, close) ==
    LET c == CloserFrom(t, i + 1, 1, open, close) IN
    IF c = 0 THEN [ok |-> FALSE, err |-> "format"]
    ELSE IF At(t, c + 1) = "^"
         THEN LET e == SkipWhile(t, c + 2, Digits) IN
              IF e = c + 2 THEN [ok |-> FALSE, err |-> "value"]           \* int('') raises a plain ValueError
              ELSE [ok |-> TRUE, mod |-> Mod(TagOf(SubSeq(t, i + 1, c - 1)), DigitsVal(t, c + 2, e - 1, 0)), next |-> e]
         ELSE [ok |-> TRUE, mod |-> Mod(TagOf(SubSeq(t, i + 1, c - 1)), 1), next |-> c + 1]

(* a run of modifications: [ok, mods, next, err] *)
RECURSIVE ParseMods(_, _, _, _, _)
ParseMods(t, i, open, close, acc) ==
    IF At(t, i) # open THEN [ok |-> TRUE, mods |-> acc, next |-> i]
    ELSE LET m == ParseMod(t, i, open, close) IN
         IF ~m.ok THEN [ok |-> FALSE, err |-> m.err]
         ELSE ParseMods(t, m.next, open, close, Append(acc, m.mod))

(* ------------------------------ the state ------------------------------ *)
Blank == EmptyAnn(<<>>)
InitState(t) == [txt |-> t, pos |-> 1, phase |-> IF t = "" THEN "accept" ELSE "start", A |-> Blank, neg |-> <<>>,
                 iv |-> <<>>, chains |-> <<>>, links |-> <<>>, err |-> ""]
Reject(s, why) == [ s EXCEPT !.phase = "reject", !.err = why ]
AtEnd(s) == s.pos > Len(s.txt)
Cur(s) == At(s.txt, s.pos)

AddInternal(A, idx, mods) ==
    [ A EXCEPT !.internal = InternalFrom([ i \in ModifiedIdx(A) \cup {idx} |-> ModsAt(A, i) \o (IF i = idx THEN mods ELSE <<>>) ]) ]

(* the chain is complete: file it and either stop or start the next chain *)
FinishChain(s, link, hasLink) ==
    LET done == [ s EXCEPT !.chains = Append(@, s.A), !.links = IF hasLink THEN Append(@, link) ELSE @ ] IN
    IF AtEnd(done) THEN [ done EXCEPT !.phase = "accept" ]
    ELSE [ done EXCEPT !.phase = "start", !.A = Blank, !.neg = <<>>, !.iv = <<>> ]

(* ------------------------------ start phase ---------------------------- *)
StartBracket(s) ==            \* "[..][..]-" (N-terminal) or "[..][..]?" (unknown position)
    LET r == ParseMods(s.txt, s.pos, "[", "]", <<>>) IN
    IF ~r.ok THEN Reject(s, r.err)
    ELSE IF r.next > Len(s.txt) THEN Reject(s, "format")
    ELSE IF At(s.txt, r.next) = "-" THEN [ s EXCEPT !.pos = r.next + 1, !.A.nterm = @ \o r.mods ]
    ELSE IF At(s.txt, r.next) = "?" THEN [ s EXCEPT !.pos = r.next + 1, !.A.unknown = @ \o r.mods ]
    ELSE Reject(s, "format")
StartGlobal(s) ==             \* "<..>": a static rule if the value contains "@", else an isotope label
    LET r == ParseMods(s.txt, s.pos, "<", ">", <<>>) IN
    IF ~r.ok THEN Reject(s, r.err)
    ELSE IF \E k \in 1..Len(r.mods) : Tag(r.mods[k].v) # "s" \/ r.mods[k].m > 1 THEN Reject(s, "format")
    ELSE [ s EXCEPT !.pos = r.next,
                    !.A.static = @ \o SelectSeq(r.mods, LAMBDA m : IndexOfChar(Body(m.v), "@") # 0),
                    !.A.isotope = @ \o SelectSeq(r.mods, LAMBDA m : IndexOfChar(Body(m.v), "@") = 0) ]
StartLabile(s) ==             \* "{..}" one at a time
    LET m == ParseMod(s.txt, s.pos, "{", "}") IN
    IF ~m.ok THEN Reject(s, m.err) ELSE [ s EXCEPT !.pos = m.next, !.A.labile = Append(@, m.mod) ]
StepStart(s) ==
    IF AtEnd(s) THEN [ s EXCEPT !.phase = "middle" ]
    ELSE CASE Cur(s) \in AminoAcids \/ Cur(s) = "(" -> [ s EXCEPT !.phase = "middle" ]
           [] Cur(s) = "[" -> StartBracket(s)
           [] Cur(s) = "<" -> StartGlobal(s)
           [] Cur(s) = "{" -> StartLabile(s)
           [] OTHER -> Reject(s, "format")

(* ------------------------------ middle phase --------------------------- *)
MidResidue(s) == [ s EXCEPT !.pos = @ + 1, !.A.seq = Append(@, Cur(s)) ]
MidMods(s) ==
    LET r == ParseMods(s.txt, s.pos, "[", "]", <<>>) IN
    IF ~r.ok THEN Reject(s, r.err)
    ELSE [ s EXCEPT !.pos = r.next, !.A = AddInternal(s.A, NRes(s.A) - 1, r.mods) ]   \* index -1 before any residue
MidCterm(s) ==
    LET r == ParseMods(s.txt, s.pos + 1, "[", "]", <<>>) IN
    IF ~r.ok THEN Reject(s, r.err) ELSE [ s EXCEPT !.pos = r.next, !.A.cterm = @ \o r.mods, !.phase = "end" ]
MidOpen(s) == IF s.iv # <<>> THEN Reject(s, "format") ELSE [ s EXCEPT !.pos = @ + 1, !.iv = <<NRes(s.A), FALSE>> ]
MidAmbiguous(s) == IF s.iv = <<>> THEN Reject(s, "format") ELSE [ s EXCEPT !.pos = @ + 1, !.iv = <<s.iv[1], TRUE>> ]
MidClose(s) ==
    IF s.iv = <<>> THEN Reject(s, "format")
    ELSE LET r == ParseMods(s.txt, s.pos + 1, "[", "]", <<>>) IN
         IF ~r.ok THEN Reject(s, r.err)
         ELSE [ s EXCEPT !.pos = r.next, !.iv = <<>>,
                         !.A.intervals = Append(@, [s |-> s.iv[1], e |-> NRes(s.A), amb |-> s.iv[2], mods |-> r.mods]) ]
StepMiddle(s) ==
    IF AtEnd(s) THEN [ s EXCEPT !.phase = "end" ]            \* an interval still open here is silently dropped
    ELSE CASE Cur(s) \in AminoAcids -> MidResidue(s)
           [] Cur(s) = "[" -> MidMods(s)
           [] Cur(s) = "-" -> MidCterm(s)
           [] Cur(s) \in {"/", "+"} -> [ s EXCEPT !.phase = "end" ]
           [] Cur(s) = "(" -> MidOpen(s)
           [] Cur(s) = ")" -> MidClose(s)
           [] Cur(s) = "?" -> MidAmbiguous(s)
           [] OTHER -> Reject(s, "format")

(* ------------------------------- end phase ----------------------------- *)
EndCharge(s) ==                \* "/" already seen at pos; pos + 1 is not "/"
    LET a == s.pos + 1
        b == IF At(s.txt, a) \in {"+", "-"} THEN a + 1 ELSE a
        e == SkipWhile(s.txt, b, Digits) IN
    IF e = b THEN Reject(s, "value")                                       \* int('') / int('+')
    ELSE LET z == DigitsVal(s.txt, b, e - 1, 0)
             zz == IF At(s.txt, a) = "-" THEN 0 - z ELSE z
             r == ParseMods(s.txt, e, "[", "]", <<>>) IN
         IF ~r.ok THEN Reject(s, r.err)
         ELSE IF \E k \in 1..Len(r.mods) : r.mods[k].m > 1 THEN Reject(s, "value")
         ELSE [ s EXCEPT !.pos = r.next, !.A.charge = zz, !.A.adducts = @ \o r.mods ]
StepEnd(s) ==
    IF AtEnd(s) THEN FinishChain(s, FALSE, FALSE)
    ELSE CASE Cur(s) = "/" /\ At(s.txt, s.pos + 1) = "/" -> FinishChain([ s EXCEPT !.pos = @ + 2 ], TRUE, TRUE)
           [] Cur(s) = "/" -> EndCharge(s)
           [] Cur(s) = "+" -> FinishChain([ s EXCEPT !.pos = @ + 1 ], FALSE, TRUE)
           [] OTHER -> Reject(s, "format")

Step(s) == CASE s.phase = "start" -> StepStart(s)
             [] s.phase = "middle" -> StepMiddle(s)
             [] s.phase = "end" -> StepEnd(s)
             [] OTHER -> s
Terminal(s) == s.phase \in {"accept", "reject"}

RECURSIVE Run(_)
Run(s) == IF Terminal(s) THEN s ELSE Run(Step(s))
ParseAll(t) == Run(InitState(t))

(* what parse() hands back: the fast path for bare residue strings, one annotation, or a chain of annotations *)
IsBare(t) == \A i \in 1..Len(t) : At(t, i) \in AminoAcids
Outcome(t) == IF IsBare(t) THEN [cls |-> "accept", chains |-> <<EmptyAnn([ i \in 1..Len(t) |-> At(t, i) ])>>, links |-> <<>>]
              ELSE LET s == ParseAll(t) IN
                   IF s.phase = "reject" THEN [cls |-> "reject", chains |-> <<>>, links |-> <<>>]
                   ELSE [cls |-> "accept", chains |-> s.chains,
                         links |-> IF Len(s.links) >= Len(s.chains) /\ Len(s.chains) > 0 THEN SubSeq(s.links, 1, Len(s.chains) - 1) ELSE s.links]
==============================================================================
