---------------------------- MODULE Trace_Isotope ----------------------------
(* Trace validation for C14: properties of a returned isotopic pattern.       *)
(* A pattern is a sequence of [m |-> Fix mass, a |-> abundance] where an      *)
(* abundance is [c0, c1, c2] = c0 + c1*1e-4 + c2*1e-8 (non-negative).         *)
EXTENDS TraceBase, Chem, Isotope
VARIABLE l

Comp(ps) == CompFromPairs([ q \in 1..Len(ps) |-> <<ps[q][1], ps[q][2]>> ])

(* abundance as a Fix number *)
AFix(a) == FAdd(FInt(a.c0), <<0, a.c1 * 100000 + a.c2 * 10>>)
(* m * a for a Fix mass m and an abundance a *)
MTimesA(m, a) == FAdd(FMulInt(m, a.c0), FAdd(FDivE4(FMulInt(m, a.c1)), FDivE4(FDivE4(FMulInt(m, a.c2)))))

SumA(p) == FSum([ q \in 1..Len(p) |-> AFix(p[q].a) ])
SumMA(p) == FSum([ q \in 1..Len(p) |-> MTimesA(p[q].m, p[q].a) ])
MaxA(p) == LET S == { AFix(p[q].a) : q \in 1..Len(p) } IN CHOOSE x \in S : \A y \in S : FLeq(y, x)

SortedByMass(p) == \A q \in 1..(Len(p) - 1) : FLeq(p[q].m, p[q + 1].m)

(* relative tolerance: |x - y| <= y * 1e-6 + 2e-8 *)
RelClose(x, y) == FWithin(x, y, FAdd(FDivE4(FDivE4(FMulInt(FAbs(y), 100))), Nano(20)))

(* product of a Fix x and a Fix-valued sum s (s = total abundance): split s into abundance limbs *)
MTimesAFix(x, s) == LET c0 == s[1]  c1 == s[2] \div 100000  c2 == (s[2] % 100000) \div 10 IN
                    FAdd(FMulInt(x, c0), FAdd(FDivE4(FMulInt(x, c1)), FDivE4(FDivE4(FMulInt(x, c2)))))

(* a Fix mass lies on the grid of d decimals when its nano part is within 2e-9 of a multiple of 10^(9-d)           *)
(* (the projection of a float adds less than that)                                                                *)
RECURSIVE P10(_)
P10(k) == IF k = 0 THEN 1 ELSE 10 * P10(k - 1)
OffGrid(m, d) == LET unit == P10(9 - d)  r == m[2] % unit IN r > 2 /\ unit - r > 2
(* k = "pattern": isotopic_distribution(comp, options) = ev.pattern *)
(* ev.requested = distribution_abundance (Fix); ev.isSum; ev.pruned = some pruning option was set                *)
PatternFails(ev) ==
    LET p == ev.pattern
        c == Comp(ev.comp) IN
    IF ev.out # "ret" THEN {"raised_" \o ev.out}
    ELSE IF Len(p) = 0 THEN {"empty_pattern"}
    ELSE (IF ~SortedByMass(p) THEN {"not_sorted_by_mass"} ELSE {})
         \cup (IF ev.isSum THEN (IF RelClose(SumA(p), ev.requested) THEN {} ELSE {"total_is_not_the_requested_abundance"})
               ELSE (IF RelClose(MaxA(p), ev.requested) THEN {} ELSE {"largest_peak_is_not_the_requested_abundance"}))
         (* lightest peak = monoisotopic mass incl. particles; weighted mean = average mass (no pruning, mass view) *)
         \cup (IF ~ev.pruned /\ ev.massView /\ ev.lightestFirst /\ Resolvable(c, TRUE)
                  /\ ~FWithin(p[1].m, CompMass(c, TRUE), Micro(20 + ev.resolutionSlack))
               THEN {"lightest_peak_is_not_the_monoisotopic_mass"} ELSE {})
         (* at most max_isotopes peaks; masses on the resolution grid, each mass once *)
         \cup (IF ev.maxIsotopes >= 0 /\ Len(p) > ev.maxIsotopes THEN {"more_peaks_than_max_isotopes"} ELSE {})
         \cup (IF ev.gridDecimals >= 0 /\ ev.gridDecimals <= 8 /\ \E q \in 1..Len(p) : OffGrid(p[q].m, ev.gridDecimals)
               THEN {"mass_not_rounded_to_the_resolution"} ELSE {})
         \cup (IF ev.gridDecimals >= 0 /\ \E q \in 1..(Len(p) - 1) : p[q].m = p[q + 1].m THEN {"two_peaks_on_one_mass"} ELSE {})
         \cup (IF ~ev.pruned /\ ev.ncMassView /\ ev.lightestFirst /\ Resolvable(c, TRUE)
                  /\ ~FWithin(p[1].m, CompMass(c, TRUE), Micro(20))
               THEN {"lightest_peak_of_the_neutron_view_is_not_the_monoisotopic_mass"} ELSE {})
         \cup (IF ~ev.pruned /\ ev.massView /\ Resolvable(c, FALSE) /\ ev.unlabelled /\ FLeq(ev.requested, FInt(100))
                  /\ ~FWithin(SumMA(p), MTimesAFix(CompMass(c, FALSE), SumA(p)), FMulInt(Micro(3000 + ev.resolutionSlack), 1 + SumA(p)[1]))
               THEN {"weighted_mean_is_not_the_average_mass"} ELSE {})
         (* ... and the average mass the library itself reports for the composition (chem_mass, average mode): the pattern *)
         (* and the average-mass table are two readings of one isotope table                                               *)
         \cup (IF ~ev.pruned /\ ev.massView /\ ev.hasLibAvg /\ ev.unlabelled /\ FLeq(ev.requested, FInt(100))
                  /\ ~FWithin(SumMA(p), MTimesAFix(ev.libAvg, SumA(p)), FMulInt(Micro(3000 + ev.resolutionSlack), 1 + SumA(p)[1]))
               THEN {"weighted_mean_is_not_the_average_mass_the_library_reports"} ELSE {})

(* k = "bins": neutron-offset view vs mass view, both scaled to a total of 1                                    *)
(* ev.mass = mass-view pattern, ev.offsets = <<[k, a]>> neutron view, ev.m0 = lightest mass of the mass view    *)
Nearest(d) == IF d[2] >= 500000000 THEN d[1] + 1 ELSE d[1]
BinsFails(ev) ==
    IF ev.out # "ret" THEN {"raised_" \o ev.out}
    ELSE LET m0 == IF Resolvable(Comp(ev.comp), TRUE) THEN CompMass(Comp(ev.comp), TRUE) ELSE ev.m0   \* offsets count from the monoisotopic mass
             ks == { ev.offsets[q].k : q \in 1..Len(ev.offsets) } \cup { Nearest(FSub(ev.mass[q].m, m0)) : q \in 1..Len(ev.mass) }
             Binned(k) == FSum([ q \in 1..Len(ev.mass) |-> IF Nearest(FSub(ev.mass[q].m, m0)) = k THEN AFix(ev.mass[q].a) ELSE FZero ])
             Off(k) == FSum([ q \in 1..Len(ev.offsets) |-> IF ev.offsets[q].k = k THEN AFix(ev.offsets[q].a) ELSE FZero ]) IN
         (* both views prune peaks below 1e-8 at every convolution step, which renormalises wide patterns slightly     *)
         (* differently (more in the tails): 1e-5 absolute + 0.1 %                                                            *)
         IF \E k \in ks : ~FWithin(Binned(k), Off(k), FAdd(Micro(10), FDivE4(FMulInt(Binned(k), 10)))) THEN {"neutron_view_is_not_the_binned_mass_view"} ELSE {}

(* k = "merge": merge_isotopic_distributions(d1, d2, precision) rounds every mass to `precision` decimals (ev.prec, *)
(* -1 = None; ties to even, the masses are dyadic so ties are exact) and adds abundances at equal masses             *)
RoundMassTo(m, p) ==
    IF p < 0 THEN m
    ELSE LET unit == P10(9 - p)
             r == m[2] % unit
             q == IF p = 0 THEN m[1] ELSE m[2] \div unit
             up == 2 * r > unit \/ (2 * r = unit /\ q % 2 = 1)
             fp2 == m[2] - r + (IF up THEN unit ELSE 0) IN
         IF fp2 >= P10(9) THEN <<m[1] + 1, fp2 - P10(9)>> ELSE <<m[1], fp2>>
MergeFails(ev) ==
    IF ev.out # "ret" THEN {"raised_" \o ev.out}
    ELSE LET all == ev.d1 \o ev.d2
             M(q) == RoundMassTo(all[q].m, ev.prec)
             masses == { M(q) : q \in 1..Len(all) }
             Want(m) == FSum([ q \in 1..Len(all) |-> IF M(q) = m THEN AFix(all[q].a) ELSE FZero ]) IN
         (IF { ev.res[q].m : q \in 1..Len(ev.res) } # masses THEN {"merged_masses"} ELSE {})
         \cup (IF Len(ev.res) # Cardinality(masses) THEN {"merged_mass_repeated"} ELSE {})
         \cup (IF \E q \in 1..Len(ev.res) : ev.res[q].m \in masses /\ AFix(ev.res[q].a) # Want(ev.res[q].m) THEN {"merged_abundance_is_not_the_sum"} ELSE {})
         \cup (IF ~SortedByMass(ev.res) THEN {"merged_not_sorted"} ELSE {})

(* k = "exact": composition of at most 12 atoms over C,H,N,O,S,P,Cl,Br,Fe,Se (integer counts), default options.  *)
(* ev.peaks = <<[m |-> Fix mass, a8 |-> abundance in 1e-8 units, relative to the largest peak]>>                   *)
(* Library masses are rounded to 5 decimals after every element is folded in, so a library peak lies within        *)
(* r = 5e-6 Da x (number of elements + 1) of its exact isotopologue.  Isotopologues can be closer to each other     *)
(* than that (57Fe vs 56Fe+D: 2.4e-5), so the comparison brackets: the library abundance within 2r of a mass is     *)
(* at least the exact abundance within r and at most the exact abundance within 3r (relative to the largest peak,  *)
(* within 3e-6), wherever either side is above 1e-6.                                                                *)
NearW(a, b, w) == FWithin(a, b, Micro(w))
ExactFails(ev) ==
    IF ev.out # "ret" THEN {"raised_" \o ev.out}
    ELSE LET E == Exact(ev.comp)
             mx == MaxAb(E)
             r == 5 * (Len(ev.comp) + 1)
             ExactIn(m, w) == SumAb({ d \in E : NearW(d[1], m, w) })
             LibNear(m) == LET S == { q \in 1..Len(ev.peaks) : NearW(ev.peaks[q].m, m, 2 * r) } IN
                           SumAb({ <<q, ev.peaks[q].a8>> : q \in S })
             (* compare x/mx (exact) with y/1e8 (library, already relative), limb-wise *)
             Slack == 300 + mx \div 400000
             Bracketed(m) == LET lhs == MulA(LibNear(m), mx) IN ExactIn(m, r) <= lhs + Slack /\ lhs <= ExactIn(m, 3 * r) + Slack IN
         (IF \E d \in E : d[2] >= mx \div 1000000 + 200 /\ ~Bracketed(d[1])
          THEN {"exact_peak_missing_or_wrong_abundance"} ELSE {})
         \cup (IF \E q \in 1..Len(ev.peaks) : ev.peaks[q].a8 >= 300 /\ ~Bracketed(ev.peaks[q].m)
               THEN {"returned_peak_not_in_exact_expansion"} ELSE {})

(* k = "threshold": ev.full = the pattern without options, ev.thr = the pattern with min_abundance_threshold = t     *)
(* (both scaled to a largest peak of 1; abundances in 1e-8 units): thr is exactly the part of full at or above t      *)
SamePeak(x, y) == FWithin(x.m, y.m, Nano(1000)) /\ x.a8 - y.a8 <= 2 /\ y.a8 - x.a8 <= 2
ThresholdFails(ev) ==
    IF ev.out # "ret" THEN {"raised_" \o ev.out}
    ELSE (IF \E q \in 1..Len(ev.full) : ev.full[q].a8 >= ev.t8 + 3 /\ ~\E r \in 1..Len(ev.thr) : SamePeak(ev.full[q], ev.thr[r])
          THEN {"peak_above_the_threshold_missing"} ELSE {})
         \cup (IF \E r \in 1..Len(ev.thr) : ~\E q \in 1..Len(ev.full) : ev.full[q].a8 >= ev.t8 - 3 /\ SamePeak(ev.full[q], ev.thr[r])
               THEN {"peak_below_the_threshold_kept_or_invented"} ELSE {})
Fails(ev) == CASE ev.k = "pattern" -> PatternFails(ev)
               [] ev.k = "threshold" -> ThresholdFails(ev)
               [] ev.k = "exact" -> ExactFails(ev)
               [] ev.k = "bins" -> BinsFails(ev)
               [] ev.k = "merge" -> MergeFails(ev)
               [] OTHER -> {"unknown_event_kind"}
(* Named deviation C14_FractionalMean: a composition with fractional counts is rounded to whole atoms and the      *)
(* pattern of the rounded formula is shifted by the monoisotopic mass difference.  The lightest peak is right, but  *)
(* the abundance-weighted mean is  average(rounded formula) + mono(formula) - mono(rounded formula), which differs  *)
(* from average(formula) by (fraction) x (average - monoisotopic mass) of each rounded element.                      *)
RoundE4(c) == LET q == c \div E4  r == c % E4 IN      \* nearest integer, ties to even (counts are >= 0 here)
              IF r > 5000 THEN q + 1 ELSE IF r < 5000 THEN q ELSE (IF q % 2 = 0 THEN q ELSE q + 1)
IsParticle(s) == s \in {"e", "p", "n"}
RoundedComp(c) == Clean([ s \in DOMAIN c |-> IF IsParticle(s) THEN c[s] ELSE RoundE4(c[s]) * E4 ])
Dev_C14_FractionalMean(ev) ==
    /\ ev.k = "pattern" /\ ev.out = "ret"
    /\ PatternFails(ev) # {}
    /\ PatternFails(ev) \subseteq {"weighted_mean_is_not_the_average_mass", "weighted_mean_is_not_the_average_mass_the_library_reports"}
    (* the same defect seen against the library's own average mass - only while that mass itself is the composition's *)
    /\ (ev.hasLibAvg /\ Resolvable(Comp(ev.comp), FALSE) => FWithin(ev.libAvg, CompMass(Comp(ev.comp), FALSE), Micro(3000)))
    /\ LET c == Comp(ev.comp)  rc == RoundedComp(c)  p == ev.pattern IN
       /\ \E s \in DOMAIN c : ~IsParticle(s) /\ c[s] % E4 # 0
       /\ Resolvable(rc, FALSE) /\ Resolvable(rc, TRUE)
       /\ LET shifted == FAdd(CompMass(rc, FALSE), FSub(CompMass(c, TRUE), CompMass(rc, TRUE))) IN
          FWithin(SumMA(p), MTimesAFix(shifted, SumA(p)), FMulInt(Micro(3000 + ev.resolutionSlack), 1 + SumA(p)[1]))
Dev(ev) == IF "C14_FractionalMean" \in Devs /\ ev.k = "pattern" /\ Dev_C14_FractionalMean(ev) THEN "C14_FractionalMean" ELSE ""
Detail(ev) == IF ev.k = "pattern" /\ ev.out = "ret" /\ Len(ev.pattern) > 0 /\ FLeq(ev.requested, FInt(100))
              THEN <<"first", ev.pattern[1].m, "mono", IF Resolvable(Comp(ev.comp), TRUE) THEN CompMass(Comp(ev.comp), TRUE) ELSE FZero,
                     "mean_num", SumMA(ev.pattern), "sumA", SumA(ev.pattern),
                     "avg", IF Resolvable(Comp(ev.comp), FALSE) THEN CompMass(Comp(ev.comp), FALSE) ELSE FZero>>
              ELSE <<>>
Init == l = 1 /\ ResetCounters
Next == /\ l <= NEvents
        /\ LET f == Fails(Events[l]) IN RecordD(Events[l], MkVerdict(f, IF f = {} THEN "" ELSE Dev(Events[l])),
                                                IF f = {} THEN <<>> ELSE Detail(Events[l]))
        /\ l' = l + 1
Spec == Init /\ [][Next]_l
Post == PrintT(Totals) /\ TLCGet(1) + TLCGet(2) + TLCGet(3) = NEvents
==============================================================================
