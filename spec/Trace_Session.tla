---------------------------- MODULE Trace_Session ----------------------------
(* Trace validation for C08.  A trace is a sequence of histories; a history   *)
(* is up to three calls on ONE shared annotation object.  Every event logs    *)
(* the full projected state before and after the call, the result, the result *)
(* of the same call on a fresh object rebuilt from the pre-state, and the     *)
(* state after the harness edited the returned value.                         *)
(* The spec state `cur` follows the logged state: an event whose pre-state is *)
(* not the state the previous event left behind is a gap in the trace.        *)
EXTENDS TraceBase, Session
VARIABLES l, cur, memo

Pre(p, S) == { p \o x : x \in S }

(* the state before the event: logged for the first call of a history, otherwise what the previous event left *)
PreOf(ev) == IF ev.step = 1 THEN ev.pre ELSE cur

ObjChanged(a, b) == (IF Diff(a.ann, b.ann) # {} THEN Pre("annotation_", Diff(a.ann, b.ann)) ELSE {})
                    \cup (IF a.has # b.has THEN {"annotation_presence_of_optional_fields"} ELSE {})
                    \cup (IF a.text # b.text THEN {"annotation_serialized_text"} ELSE {})

QueryFails(ev) ==
    Pre("argument_changed_", ObjChanged(PreOf(ev).obj, ev.post.obj))
    \cup (IF ev.post.aux # PreOf(ev).aux THEN {"argument_container_changed"} ELSE {})
    \cup (IF ev.post.glob.rng # PreOf(ev).glob.rng THEN {"caller_random_state_changed"} ELSE {})
    \cup (IF ev.post.glob.voc # PreOf(ev).glob.voc THEN {"modification_database_changed"} ELSE {})
    \cup (IF ev.res # ev.fresh THEN {"result_differs_from_first_call_on_fresh_object"} ELSE {})
    (* the same call on the same state in a fresh interpreter (ev.ref = "" when no reference was recorded) *)
    \cup (IF ev.ref # "" /\ ev.res # ev.ref THEN {"result_differs_from_fresh_process"} ELSE {})
    (* the same query earlier in this history, no editor in between: same answer (memo = <<call, result>> pairs) *)
    \cup (IF ev.step > 1 /\ \E p \in memo : p[1] = ev.call /\ p[2] # ev.res THEN {"result_depends_on_call_history"} ELSE {})
    \cup Pre("editing_the_result_changed_", ObjChanged(ev.post.obj, ev.edited.obj))
    \cup (IF ev.edited.aux # ev.post.aux THEN {"editing_the_result_changed_argument_container"} ELSE {})

EditorFails(ev) ==
    LET want == Effect(ev.call, PreOf(ev).obj.ann) IN
    (IF ev.call = "condense_static_inplace"
     THEN (IF ev.post.obj.ann.static # <<>> THEN {"editor_effect_static"} ELSE {})
     ELSE Pre("editor_effect_", Diff(ev.post.obj.ann, want)))
    \cup (IF ev.post.aux # PreOf(ev).aux THEN {"argument_container_changed"} ELSE {})
    \cup (IF ev.post.glob.rng # PreOf(ev).glob.rng THEN {"caller_random_state_changed"} ELSE {})

(* cls = "R": the same query on the same seed annotation in two fresh interpreters that evaluated the other queries in     *)
(* opposite orders (ev.ref: seeds and calls in table order, ev.res: reversed) - a process-wide cache or memo that makes an  *)
(* answer depend on what was asked before shows here whatever the order inside the driver's own workers                    *)
OrderFails(ev) == IF ev.res # ev.ref THEN {"fresh_process_answer_depends_on_the_queries_it_answered_before"} ELSE {}

Fails(ev) ==
    IF ev.cls = "R" THEN OrderFails(ev) ELSE
    (IF CallClass(ev.call) # ev.cls THEN {"MACHINERY_call_class_mismatch"} ELSE {})
    \cup (IF ev.step > 1 /\ cur = <<>> THEN {"MACHINERY_trace_gap"} ELSE {})
    \cup (IF ev.cls = "Q" THEN QueryFails(ev) ELSE EditorFails(ev))

Dev(ev) == ""
Init == l = 1 /\ cur = <<>> /\ memo = {} /\ ResetCounters
Next == /\ l <= NEvents
        /\ LET f == Fails(Events[l]) IN Record(Events[l], MkVerdict(f, IF f = {} THEN "" ELSE Dev(Events[l])))
        /\ cur' = (IF Events[l].cls = "R" THEN <<>> ELSE Events[l].edited)       \* total validator: adopt the logged state and go on
        /\ memo' = LET ev == Events[l]  old == IF ev.step = 1 THEN {} ELSE memo IN
                   IF ev.cls \in {"E", "R"} THEN {} ELSE old \cup {<<ev.call, ev.res>>}
        /\ l' = l + 1
Spec == Init /\ [][Next]_<<l, cur, memo>>
Post == PrintT(Totals) /\ TLCGet(1) + TLCGet(2) + TLCGet(3) = NEvents
==============================================================================
