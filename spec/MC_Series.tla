------------------------------ MODULE MC_Series ------------------------------
(* Stage A for C05: the reference offsets derived from chemistry are          *)
(* internally consistent on every residue string of length <= MaxLen over a   *)
(* small alphabet, with and without a modification.                           *)
EXTENDS Fragment, TLC
CONSTANT MaxLen
VARIABLES A, mono
Alpha == {"G", "K", "M"}
Seqs == UNION { [1..k -> Alpha] : k \in 2..MaxLen }
Init == /\ mono \in BOOLEAN
        /\ A \in { [ EmptyAnn(s) EXCEPT !.nterm = nt, !.internal = InternalFrom([ i \in 0..(Len(s) - 1) |-> IF i = 1 THEN r1 ELSE <<>> ]) ] :
                   s \in Seqs, nt \in {<<>>, <<Mod("s:Formula:C2H2O", 1)>>}, r1 \in {<<>>, <<Mod("f:15.994915", 2)>>} }
Next == UNCHANGED <<A, mono>>
Spec == Init /\ [][Next]_<<A, mono>>
n == NRes(A)
M == FAdd(SpanMass(A, 0, n, mono), CompMass(Water, mono))
(* complementary ions: b_i + y_(n-i) = M + 2 protons *)
Complementary == \A i \in 1..(n - 1) : FAdd(BIon(A, i, mono), YIon(A, i, mono)) = FAdd(M, FMulInt(Proton, 2))
(* a modification shifts exactly the ions containing it *)
ShiftLaw == LET B == [ A EXCEPT !.internal = <<>> ] IN
            \A e \in 1..n : (FSub(BIon(A, e, mono), BIon(B, e, mono)) = FZero) <=> (e < 2 \/ A.internal = <<>>)
(* x - z = CO + NH (used for the a/b-x/z internal group) *)
XZ == FSub(OffX(mono), OffZ(mono)) = FSub(FAdd(CompMass(CO, mono), CompMass(Ammonia, mono)), CompMass(H2, mono))
(* internal by over the whole inner part + the two flanking residues' masses gives the peptide *)
Spans == \A t \in AllTypes : \A sp \in SpansOf(t, n) : 0 <= sp[1] /\ sp[1] < sp[2] /\ sp[2] <= n
Counts == /\ \A t \in Forward \cup Backward : Cardinality(SpansOf(t, n)) = n
          /\ Cardinality(SpansOf("i", n)) = n
          /\ \A t \in InternalT : Cardinality(SpansOf(t, n)) = ((n - 1) * (n - 2)) \div 2
==============================================================================
