SPECIFICATION Spec
CONSTANTS
  MaxTheo = 3
  MaxObs = 4
  Grid = 4
  MaxTol = 5
INVARIANT Refines
INVARIANT LoSafe
CHECK_DEADLOCK FALSE
