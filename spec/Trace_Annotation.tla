-------------------------- MODULE Trace_Annotation ---------------------------
(* Trace validation for the properties about operations on one annotation:    *)
(*   C11 reverse / shift / shuffle / sort / slice / split                      *)
(*   C19 permutations / combinations / product                                 *)
(*   C20 modification dictionaries, copies, strip, equality                    *)
(* Each event is one recorded call (or a short composition of calls) of the   *)
(* real code on an annotation built from the abstract annotation ev.A.        *)
EXTENDS TraceBase, ProFormaText, Fix, Combinatoric
VARIABLE l

Pre(p, S) == { p \o x : x \in S }
ResidueFields == {"seq", "internal"}
GlobalFields  == {"labile", "static", "isotope", "unknown", "adducts", "charge"}
TermFields    == {"nterm", "cterm"}

(* differences restricted to the fields a clause speaks about *)
DiffOn(got, want, fields) == Diff(got, want) \cap fields

Alphabet == "ABCDEFGHIJKLMNOPQRSTUVWXYZ"
Ord(c) == CHOOSE i \in 1..26 : SubSeq(Alphabet, i, i) = c
StrLeq(a, b) == Ord(a) <= Ord(b)

Tol == Micro(1)
MassSame(ev) == ev.massIn = <<>> \/ ev.massOut = <<>> \/ FWithin(ev.massIn, ev.massOut, Tol)

(* -------------------------------- C11 ---------------------------------- *)
(* every op event carries: A, res (copy form), resIn (inplace form), orig (the argument after the copy-form call), *)
(* massIn / massOut = real mass of argument and result (<<>> when the mass is not computable)                       *)
(* ev.results = <<[via |-> "copy" | "inplace" | "str", ann |-> projection]>>: the same operation through the copy  *)
(* form, the inplace=True form and the module-level string function must all give the specified result         *)
(* via = "ARG": the annotation object that was handed to the string-level function, as it is afterwards (= ev.A)    *)
Both(ev, F(_)) == UNION { IF ev.results[r].via = "str_unparsable" THEN {"str_result_unparsable"}
                          ELSE IF ev.results[r].via = "ARG"
                               THEN Pre("argument_object_changed_", Diff(ev.results[r].ann, ev.A))
                          ELSE Pre(ev.results[r].via \o "_", F(ev.results[r].ann)) : r \in 1..Len(ev.results) }

ReverseFails(ev) ==
    LET want == ReverseAnn(ev.A, ev.swap)
        Chk(got) == DiffOn(got, want, ResidueFields \cup GlobalFields \cup TermFields \cup {"intervals"}) IN
    Both(ev, Chk) \cup (IF MassSame(ev) THEN {} ELSE {"mass_changed"})

ShiftFails(ev) ==
    LET want == ShiftAnn(ev.A, ev.n)
        Chk(got) == DiffOn(got, want, ResidueFields \cup GlobalFields \cup TermFields) IN
    Both(ev, Chk) \cup (IF MassSame(ev) THEN {} ELSE {"mass_changed"})

PermFails(ev) ==   \* shuffle, sort: some permutation of the residues, each keeping its own modifications
    LET Chk(got) == (IF IsResiduePermutation(ev.A, got) THEN {} ELSE {"not_a_residue_permutation"})
                    \cup (IF ev.op = "sort" /\ \E p \in 1..(Len(got.seq) - 1) : ~StrLeq(got.seq[p], got.seq[p + 1])
                          THEN {"not_sorted"} ELSE {}) IN
    Both(ev, Chk) \cup (IF MassSame(ev) THEN {} ELSE {"mass_changed"})

(* identities: reverse twice, shift k then -k, shift by the length *)
IdentityFails(ev) == Pre("identity_", Diff(ev.res, ev.A))

SliceFails(ev) ==
    LET want == Slice(ev.A, ev.i, ev.j)
        Chk(got) == DiffOn(got, want, ResidueFields \cup TermFields \cup {"intervals"} \cup {"static", "isotope"}) IN
    (IF ev.i < ev.j THEN Both(ev, Chk)
     ELSE (* empty slice: the statement's re-parse clause is for non-empty slices only; its text need not parse *)
          { c \in Both(ev, Chk) : SubSeq(c, 1, 4) # "str_" })
    \cup (IF ev.i < ev.j /\ ~ev.reparseEq THEN {"slice_text_does_not_reparse_to_slice"} ELSE {})

(* a slice of the reversed peptide *)
RevSliceFails(ev) ==
    LET want == Slice(ReverseAnn(ev.A, FALSE), ev.i, ev.j) IN
    Pre("slice_of_reversed_", DiffOn(ev.res, want, ResidueFields \cup TermFields \cup {"intervals"} \cup {"static", "isotope"}))

SliceComposeFails(ev) ==
    LET want == Slice(ev.A, ev.i + ev.a, ev.i + ev.b) IN
    Pre("slice_of_slice_", DiffOn(ev.res, want, ResidueFields \cup TermFields \cup {"intervals"}))
    \cup Pre("direct_slice_", DiffOn(ev.res2, want, ResidueFields \cup TermFields \cup {"intervals"}))

SplitFails(ev) ==
    LET n == NRes(ev.A) IN
    IF Len(ev.pieces) # n THEN {"piece_count"}
    ELSE UNION { Pre("piece_", DiffOn(ev.pieces[p], Piece(ev.A, p - 1),
                                    ResidueFields \cup TermFields \cup {"labile", "static", "isotope"})) : p \in 1..n }
         \cup (IF n >= 1 /\ ev.A.intervals = <<>>
               THEN LET whole == FoldLeft(LAMBDA acc, q : Concat(acc, ev.pieces[q]), ev.pieces[1], [ q \in 1..(n - 1) |-> q + 1 ])
                    IN  Pre("concat_", DiffOn(whole, ev.A, ResidueFields \cup TermFields \cup {"labile"}))
               ELSE {})

(* -------------------------------- C19 ---------------------------------- *)
(* ev.kind in product | permutations | combinations | combinations_with_replacement; ev.size (-1 = None = n);   *)
(* ev.res = the returned annotations (projected), in order; ev.allParse = every result re-parses to itself      *)
Wrap(A, t) ==
    [ A EXCEPT !.seq = [ q \in 1..Len(t) |-> A.seq[t[q]] ],
               !.internal = InternalFrom([ q \in 0..(Len(t) - 1) |-> ModsAt(A, t[q + 1] - 1) ]),
               !.intervals = <<>> ]

CombFails(ev) ==
    LET n == NRes(ev.A)
        k == IF ev.size = -1 THEN n ELSE ev.size
        want == IndexTuples(ev.kind, n, k) IN
    (IF Len(ev.res) # ExpectedCount(ev.kind, n, k) THEN {"count_formula"} ELSE {})
    \cup (IF Len(ev.res) # Len(want) THEN {"count"}
          ELSE UNION { Pre("item_", Diff(ev.res[q], Wrap(ev.A, want[q]))) : q \in 1..Len(want) })
    \cup (IF ~ev.allParse THEN {"result_does_not_reparse"} ELSE {})
    \cup (IF ev.again # ev.res THEN {"second_expansion_of_the_same_object_differs"} ELSE {})
    \cup (IF ev.siblings # ev.res THEN {"editing_one_result_changed_the_others"} ELSE {})
    \cup Pre("source_changed_by_editing_a_result_", Diff(ev.argAfter, ev.A))

(* -------------------------------- C20 ---------------------------------- *)
ModDictFails(ev) == IF ev.res # Write(ev.A, FALSE) THEN {"add_mods_of_get_mods_differs"} ELSE {}

FromDictFails(ev) == Pre("rebuilt_", Diff(ev.res, ev.A)) \cup (IF ~ev.eq THEN {"rebuilt_not_equal"} ELSE {})

CopyFails(ev) ==
    Pre("copy_", Diff(ev.copy, ev.A))
    \cup (IF ~ev.eq THEN {"copy_not_equal"} ELSE {})
    \cup Pre("source_changed_by_editing_copy_", Diff(ev.origAfter, ev.A))
    \cup Pre("copy_changed_by_editing_source_", Diff(ev.copyAfter, ev.A))
    \cup (IF Diff(ev.editedCopy, ev.A) = {} THEN {"MACHINERY_edit_had_no_effect"} ELSE {})

StripFails(ev) ==
    Pre("strip_", Diff(ev.res, Strip(ev.A)))
    \cup Pre("strip_inplace_", Diff(ev.resIn, Strip(ev.A)))
    \cup (IF ev.text # Join(ev.A.seq) THEN {"strip_mods_text"} ELSE {})
    \cup Pre("source_changed_", Diff(ev.origAfter, ev.A))

(* real == on (A, B) and (B, A) must say what the specification's Equal says; == is reflexive *)
EqFails(ev) ==
    LET want == Equal(ev.A, ev.B) IN
    (IF ev.ab # want THEN {IF want THEN "equal_annotations_compare_unequal" ELSE "different_annotations_compare_equal_" \o ev.what} ELSE {})
    \cup (IF ev.ba # ev.ab THEN {"equality_not_symmetric"} ELSE {})
    \cup (IF ~ev.aa THEN {"equality_not_reflexive"} ELSE {})

Fails(ev) == IF ev.out # "ret" THEN {"raised_" \o ev.out}
             ELSE CASE ev.op = "reverse" -> ReverseFails(ev)
                    [] ev.op = "comb" -> CombFails(ev)
                    [] ev.op = "moddict" -> ModDictFails(ev)
                    [] ev.op = "fromdict" -> FromDictFails(ev)
                    [] ev.op = "copy" -> CopyFails(ev)
                    (* dict() and mod_dict() hand out what the caller owns: editing every modification object inside them,  *)
                    (* field by field, leaves the annotation as it was                                                   *)
                    [] ev.op = "dictedit" -> (IF ev.out # "ret" THEN {"raised_" \o ev.out}
                                              ELSE Pre("source_changed_by_editing_returned_dictionary_", Diff(ev.origAfter, ev.A)))
                    [] ev.op = "strip" -> StripFails(ev)
                    [] ev.op = "eq" -> EqFails(ev)
                    [] ev.op = "shift" -> ShiftFails(ev)
                    [] ev.op \in {"shuffle", "sort"} -> PermFails(ev)
                    [] ev.op \in {"reverse2", "shift_back", "shift_len"} -> IdentityFails(ev)
                    [] ev.op = "slice" -> SliceFails(ev)
                    [] ev.op = "slice2" -> SliceComposeFails(ev)
                    [] ev.op = "revslice" -> RevSliceFails(ev)
                    [] ev.op = "split" -> SplitFails(ev)
                    [] OTHER -> {"unknown_op"}

(* ---------------------------------------------------------------------------------------------- *)
(* Named deviation C11_ShiftWrapsInterval: a cyclic shift whose rotation point falls strictly inside an *)
(* ambiguity interval cannot keep that interval contiguous; the code swaps the wrapped bounds, so the   *)
(* interval afterwards covers other residues. Exactly: every residue-level field is right; only the     *)
(* intervals differ, and they are what the bound-swapping rule below yields.                            *)
ImplShiftIntervals(ivs, n, k) ==
    [ q \in 1..Len(ivs) |->
        LET ns == (ivs[q].s - k) % n
            ne == ((ivs[q].e - 1 - k) % n) + 1 IN
        IF ns > ne THEN [ ivs[q] EXCEPT !.s = ne, !.e = ns ] ELSE [ ivs[q] EXCEPT !.s = ns, !.e = ne ] ]

Wraps(A, k) == LET n == NRes(A) IN
               \E q \in 1..Len(A.intervals) : A.intervals[q].s < (k % n) /\ (k % n) < A.intervals[q].e

Dev_C11_ShiftWrapsInterval(ev) ==
    /\ ev.out = "ret"
    /\ NRes(ev.A) >= 1
    /\ Wraps(ev.A, ev.n)
    /\ \/ /\ ev.op = "shift"
          /\ Fails(ev) \subseteq {"str_result_unparsable", "str_intervals"}
       \/ /\ ev.op = "shift_back"
          /\ Diff(ev.res, ev.A) = {"intervals"}
          /\ LET n == NRes(ev.A)
                 k == ev.n % n
                 once == ImplShiftIntervals(ev.A.intervals, n, k)
                 twice == ImplShiftIntervals(once, n, (0 - ev.n) % n) IN
             Bag([ q \in 1..Len(ev.res.intervals) |-> IntervalKey(ev.res.intervals[q]) ])
               = Bag([ q \in 1..Len(twice) |-> IntervalKey(twice[q]) ])

Dev(ev) == IF "C11_ShiftWrapsInterval" \in Devs /\ ev.op \in {"shift", "shift_back"} /\ Dev_C11_ShiftWrapsInterval(ev)
           THEN "C11_ShiftWrapsInterval" ELSE ""

Init == l = 1 /\ ResetCounters
Next == /\ l <= NEvents
        /\ LET f == Fails(Events[l]) IN Record(Events[l], MkVerdict(f, IF f = {} THEN "" ELSE Dev(Events[l])))
        /\ l' = l + 1
Spec == Init /\ [][Next]_l
Post == PrintT(Totals) /\ TLCGet(1) + TLCGet(2) + TLCGet(3) = NEvents
==============================================================================
