SPECIFICATION Spec
CONSTANTS
  MaxT = 6
  MaxQ = 3
  Overlapped = TRUE
INVARIANT Refines
CHECK_DEADLOCK FALSE
