SPECIFICATION Spec
INVARIANT Reflexive
INVARIANT Separates
CHECK_DEADLOCK FALSE
