-------------------------- MODULE Trace_ModBuilder ---------------------------
(* Trace validation for C13 (static and variable modification builders).      *)
EXTENDS TraceBase, ModBuilder
VARIABLE l

Pre(p, S) == { p \o x : x \in S }

RuleOf(j) == CASE j.style = "letter" -> [style |-> "letter", cls |-> SeqToSet(j.cls), mods |-> j.mods, groups |-> j.groups]
               [] j.style = "lookbehind" -> [style |-> "lookbehind", cls |-> SeqToSet(j.cls), before |-> SeqToSet(j.before),
                                             mods |-> j.mods, groups |-> j.groups]
               [] j.style = "literal2" -> [style |-> "literal2", a |-> j.a, b |-> j.b, mods |-> j.mods, groups |-> j.groups]
TermRuleOf(j) == [cond |-> SeqToSet(j.cond), mods |-> j.mods, groups |-> j.groups]
Rules(js) == [ k \in 1..Len(js) |-> RuleOf(js[k]) ]
TermRules(js) == [ k \in 1..Len(js) |-> TermRuleOf(js[k]) ]

AllFields == {"seq", "labile", "static", "isotope", "unknown", "nterm", "cterm", "adducts", "internal", "intervals", "charge"}

(* k = "static": apply_static_mods(A, rules, mode) = ev.res; ev.twice = applied again to the result (skip mode) *)
StaticFails(ev) ==
    LET want == StaticForm(ev.A, Rules(ev.irules), TermRules(ev.nrules), TermRules(ev.crules), ev.mode) IN
    IF ev.out # "ret" THEN {"raised_" \o ev.out}
    ELSE Pre("static_", Diff(ev.res, want))
         \cup (IF ev.mode = "skip" THEN Pre("second_application_changed_", Diff(ev.twice, ev.res)) ELSE {})
         \cup Pre("argument_changed_", Diff(ev.argAfter, ev.A))

(* canonical form of a projected annotation, so that forms can be compared as values *)
Canon(X) == [ X EXCEPT !.internal = InternalFrom([ i \in ModifiedIdx(X) |-> ModsAt(X, i) ]) ]

(* k = "variable": apply_variable_mods(A, rules, maxMods, mode) = ev.res (a list of annotations) *)
(* an upper bound, capped at 10^6, on the number of forms any mode can return: every matched residue takes one of the   *)
(* groups offered to it or none, and so does each terminus (max_mods only lowers the number)                          *)
CapMul(a, b) == IF a * b > 1000000 THEN 1000000 ELSE a * b
FormsBound(A, vr, nr, cr) ==
    LET perSite == [ i \in 1..NRes(A) |-> 1 + Len(Options(A, vr, i - 1)) ]
        terms(rs) == 1 + FoldLeft(LAMBDA acc, r : acc + Len(r.groups), 0, rs) IN
    CapMul(CapMul(FoldLeft(LAMBDA acc, f : CapMul(acc, f), 1, perSite), terms(nr)), terms(cr))

VariableFails(ev) ==
    LET A == ev.A
        vr == Rules(ev.irules)  nr == TermRules(ev.nrules)  cr == TermRules(ev.crules)
        got == [ k \in 1..Len(ev.res) |-> Canon(ev.res[k]) ]
        gotSet == SeqToSet(got)
        matched == UNION { MatchSites(A.seq, vr[k]) : k \in 1..Len(vr) } IN
    (* "hang": the call was stopped after 20 s of CPU time. Judged only where at most 50 000 forms can exist at all -    *)
    (* a large enumeration may legitimately take that long and is left unjudged                                         *)
    IF ev.out = "hang" THEN (IF FormsBound(A, vr, nr, cr) <= 50000 THEN {"small_enumeration_did_not_finish"} ELSE {})
    ELSE IF ev.out # "ret" THEN {"raised_" \o ev.out}
    ELSE (IF Cardinality(gotSet) # Len(got) THEN {"form_returned_twice"} ELSE {})
         \cup (IF Canon(A) \notin gotSet THEN {"unmodified_form_missing"} ELSE {})
         \cup (IF \E X \in gotSet : X.seq # A.seq THEN {"residues_changed"} ELSE {})
         \cup (IF \E X \in gotSet : \E i \in 0..(NRes(A) - 1) : i \notin matched /\ ModsAt(X, i) # ModsAt(A, i)
               THEN {"change_outside_matched_sites"} ELSE {})
         \cup (IF \E X \in gotSet : \E f \in {"labile", "static", "isotope", "unknown", "adducts", "intervals", "charge"} : X[f] # A[f]
               THEN {"other_annotations_changed"} ELSE {})
         \cup (IF ev.mode = "skip"
               THEN LET want == { Canon(X) : X \in VariableForms(A, vr, nr, cr, ev.maxMods) } IN
                    (IF want \ gotSet # {} THEN {"form_missing"} ELSE {})
                    \cup (IF gotSet \ want # {} THEN {"form_not_obtainable"} ELSE {})
                    \cup (IF \E X \in gotSet : \E i \in 0..(NRes(A) - 1) : ModsAt(A, i) # <<>> /\ ModsAt(X, i) # ModsAt(A, i)
                          THEN {"pre_existing_modification_changed"} ELSE {})
               ELSE {})

Fails(ev) == CASE ev.k = "static" -> StaticFails(ev)
               [] ev.k = "variable" -> VariableFails(ev)
               [] OTHER -> {"unknown_event_kind"}
Dev(ev) == ""
Init == l = 1 /\ ResetCounters
Next == /\ l <= NEvents
        /\ LET f == Fails(Events[l]) IN Record(Events[l], MkVerdict(f, IF f = {} THEN "" ELSE Dev(Events[l])))
        /\ l' = l + 1
Spec == Init /\ [][Next]_l
Post == PrintT(Totals) /\ TLCGet(1) + TLCGet(2) + TLCGet(3) = NEvents
==============================================================================
