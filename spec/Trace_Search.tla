---------------------------- MODULE Trace_Search -----------------------------
(* Trace validation for C16. *)
EXTENDS TraceBase, Search, ProFormaText, Fix
VARIABLE l

FindFails(ev) ==
    LET want == Occurrences(ev.Q, ev.T, ev.ignore)
        got  == SeqToSet(ev.res) IN
    (IF want \ got # {} THEN {"missed_occurrence"} ELSE {})
    \cup (IF got \ want # {} THEN {"spurious_occurrence"} ELSE {})
    \cup (IF Cardinality(got) # Len(ev.res) THEN {"duplicate_offset"} ELSE {})

CoverageFails(ev) ==
    LET want == Coverage(ev.T, ev.subs, ev.accumulate, ev.ignore) IN
    (IF ev.res # want THEN {"coverage_array"} ELSE {})

PercentFails(ev) ==
    LET n == NRes(ev.T)
        m == Marked(ev.T, ev.subs, ev.ignore) IN
    (IF FLess(ev.res, FZero) \/ FLess(FInt(1), ev.res) THEN {"percent_outside_0_1"} ELSE {})
    \cup (IF n > 0 /\ ~FWithin(FMulInt(ev.res, n), FInt(m), Nano(n + 1)) THEN {"percent_not_marked_fraction"} ELSE {})
    \cup (IF n = 0 /\ ev.res # FZero THEN {"percent_of_empty"} ELSE {})

UnorderedFails(ev) ==
    IF ev.res # UnorderedContained(ev.Q, ev.T) THEN {"unordered_containment"} ELSE {}

OrderedFails(ev) ==
    IF ev.res # (Occurrences(ev.Q, ev.T, FALSE) # {}) THEN {"ordered_containment"} ELSE {}

Fails(ev) == IF ev.out # "ret" THEN {"raised_" \o ev.out}
             ELSE CASE ev.op = "find" -> FindFails(ev)
                    [] ev.op = "coverage" -> CoverageFails(ev)
                    [] ev.op = "percent" -> PercentFails(ev)
                    [] ev.op = "unordered" -> UnorderedFails(ev)
                    [] ev.op = "ordered" -> OrderedFails(ev)
                    [] OTHER -> {"unknown_op"}
(* C16_UnorderedComparesText: the order-insensitive test counts the WRITTEN form of every residue with its          *)
(* modifications, so two spellings of one modified residue - the same modifications listed in another order,        *)
(* "[1]" against "[1.0]" - are different residues for it (they are equal for ==, for the ordered search and for      *)
(* coverage).  Exactly: the answer is bag inclusion of the per-residue texts.                                        *)
(* the text of every one-residue piece as split() cuts it: the residue with its modifications, global isotope labels  *)
(* on every piece, labile and N-terminal modifications on the first, C-terminal ones on the last                       *)
ResidueTextBag(A) == Bag([ p \in 1..NRes(A) |-> Write(Piece(A, p - 1), FALSE) ])
Dev_C16_UnorderedComparesText(ev) ==
    /\ ev.op = "unordered" /\ ev.out = "ret"
    /\ ev.res = BagIncluded(ResidueTextBag(ev.Q), ResidueTextBag(ev.T))
Dev(ev) == IF "C16_UnorderedComparesText" \in Devs /\ Dev_C16_UnorderedComparesText(ev) THEN "C16_UnorderedComparesText" ELSE ""
Init == l = 1 /\ ResetCounters
Next == /\ l <= NEvents
        /\ LET f == Fails(Events[l]) IN Record(Events[l], MkVerdict(f, IF f = {} THEN "" ELSE Dev(Events[l])))
        /\ l' = l + 1
Spec == Init /\ [][Next]_l
Post == PrintT(Totals) /\ TLCGet(1) + TLCGet(2) + TLCGet(3) = NEvents
==============================================================================
