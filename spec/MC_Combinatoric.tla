--------------------------- MODULE MC_Combinatoric ---------------------------
(* Stage A for C19: the reference enumerations have the closed-form counts,   *)
(* are duplicate free and are in lexicographic (itertools) order.             *)
EXTENDS Combinatoric, TLC
CONSTANT MaxN
VARIABLES kind, n, k
Kinds == {"product", "permutations", "combinations", "combinations_with_replacement"}
Init == kind \in Kinds /\ n \in 0..MaxN /\ k \in 0..(MaxN + 1)
Next == UNCHANGED <<kind, n, k>>
Spec == Init /\ [][Next]_<<kind, n, k>>
T == IndexTuples(kind, n, k)
CountLaw == Len(T) = ExpectedCount(kind, n, k)
NoDup == Cardinality({ T[i] : i \in 1..Len(T) }) = Len(T)
Ordered == \A i \in 1..(Len(T) - 1) : LexLess(T[i], T[i + 1])
EmptyAboveN == (k > n /\ kind \in {"permutations", "combinations"}) => T = <<>>
Nesting == /\ kind = "combinations" => \A i \in 1..Len(T) : Distinct(T[i]) /\ NonDecreasing(T[i])
           /\ kind = "permutations" => \A i \in 1..Len(T) : Distinct(T[i])
==============================================================================
