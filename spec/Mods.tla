-------------------------------- MODULE Mods ---------------------------------
(* What a modification value means: a composition and/or a mass shift.        *)
(* Sem(v) = [ok |-> BOOLEAN, comp |-> composition, delta |-> Fix]             *)
(* with mass = CompMass(comp, mode) + delta.  Written from the ProForma 2.0   *)
(* notation and from chemistry; the small vocabulary below has compositions   *)
(* known a priori (Unimod / PSI-MOD / XLMOD entries the author knows).        *)
EXTENDS Chem

(* sugars = number of vocabulary units whose mass the library takes from a table (monosaccharide units and named *)
(* Unimod / PSI-MOD / XLMOD entries); used only to describe the recorded finding about tabulated-mass rounding    *)
Unres == [ok |-> FALSE, comp |-> EmptyComp, delta |-> FZero, sugars |-> 0]
SemComp(c) == [ok |-> TRUE, comp |-> c, delta |-> FZero, sugars |-> 0]
SemDelta(d) == [ok |-> TRUE, comp |-> EmptyComp, delta |-> d, sugars |-> 0]
Tab(c) == [ok |-> TRUE, comp |-> c, delta |-> FZero, sugars |-> 1]      \* one tabulated vocabulary entry

(* decimal text -> Fix (up to 9 decimals); IsCountText-like syntax with optional sign *)
RECURSIVE Pow10(_)
Pow10(k) == IF k = 0 THEN 1 ELSE 10 * Pow10(k - 1)
IsDecimalText(t) ==
    LET s == IF At(t, 1) \in {"-", "+"} THEN 2 ELSE 1
        d == SkipWhile(t, s, Digits) IN
    /\ t # "" /\ d > s
    /\ \/ d = Len(t) + 1
       \/ (At(t, d) = "." /\ SkipWhile(t, d + 1, Digits) = Len(t) + 1 /\ Len(t) - d <= 9)
DecimalFixPlain(t) ==
    LET neg == At(t, 1) = "-"
        s == IF At(t, 1) \in {"-", "+"} THEN 2 ELSE 1
        d == SkipWhile(t, s, Digits)
        ip == DigitsVal(t, s, d - 1, 0)
        nf == IF d <= Len(t) THEN Len(t) - d ELSE 0
        fr == IF nf = 0 THEN 0 ELSE DigitsVal(t, d + 1, Len(t), 0) * Pow10(9 - nf)
        v == <<ip, fr>> IN
    IF neg THEN FNeg(v) ELSE v
(* Python writes floats below 1e-4 in exponent form ("1.5e-05", "-4e-07"): mantissa (< 10) times 10^-k *)
ExpPos(t) == LET S == { i \in 1..Len(t) : At(t, i) = "e" } IN IF S = {} THEN 0 ELSE CHOOSE i \in S : TRUE
DecimalFix(t) ==
    LET e == ExpPos(t) IN
    IF e = 0 \/ At(t, e + 1) # "-" THEN DecimalFixPlain(t)
    ELSE LET neg == At(t, 1) = "-"
             m == FAbs(DecimalFixPlain(SubSeq(t, 1, e - 1)))
             k == DigitsVal(t, e + 2, Len(t), 0)
             v == IF k > 9 THEN FZero ELSE <<0, m[1] * Pow10(9 - k) + m[2] \div Pow10(k)>> IN
         IF neg THEN FNeg(v) ELSE v

(* ---------------------- vocabulary known a priori ---------------------- *)
NameComp(name) ==
    CASE name \in {"Oxidation", "Hydroxylation"} -> Cmp(<<"O", 1>>)
      [] name = "Phospho" -> Cmp(<<"H", 1, "O", 3, "P", 1>>)
      [] name = "Acetyl" -> Cmp(<<"C", 2, "H", 2, "O", 1>>)
      [] name = "Carbamidomethyl" -> Cmp(<<"C", 2, "H", 3, "N", 1, "O", 1>>)
      [] name = "Methyl" -> Cmp(<<"C", 1, "H", 2>>)
      [] name = "Deamidated" -> Cmp(<<"H", -1, "N", -1, "O", 1>>)
      [] name = "Amidated" -> Cmp(<<"H", 1, "N", 1, "O", -1>>)
      [] name = "Dehydrated" -> Cmp(<<"H", -2, "O", -1>>)
      [] name = "Carbamyl" -> Cmp(<<"C", 1, "H", 1, "N", 1, "O", 1>>)
      [] name = "Label:13C(6)" -> Cmp(<<"C", -6, "13C", 6>>)
      [] name = "Label:13C(6)15N(2)" -> Cmp(<<"C", -6, "13C", 6, "N", -2, "15N", 2>>)
      [] name = "Label:13C(6)15N(4)" -> Cmp(<<"C", -6, "13C", 6, "N", -4, "15N", 4>>)
      [] name = "O-phospho-L-serine" -> Cmp(<<"H", 1, "O", 3, "P", 1>>)
      [] name = "DSS" -> Cmp(<<"C", 8, "H", 10, "O", 2>>)
UnimodNames == {"Oxidation", "Hydroxylation", "Phospho", "Acetyl", "Carbamidomethyl", "Methyl", "Deamidated", "Amidated",
                "Dehydrated", "Carbamyl", "Label:13C(6)", "Label:13C(6)15N(2)", "Label:13C(6)15N(4)"}
UnimodAcc(acc) == CASE acc = "1" -> "Acetyl" [] acc = "4" -> "Carbamidomethyl" [] acc = "21" -> "Phospho"
                    [] acc = "35" -> "Oxidation" [] acc = "34" -> "Methyl" [] acc = "7" -> "Deamidated"
                    [] acc = "2" -> "Amidated" [] acc = "23" -> "Dehydrated" [] acc = "5" -> "Carbamyl"
                    [] acc = "188" -> "Label:13C(6)" [] acc = "259" -> "Label:13C(6)15N(2)"
                    [] acc = "267" -> "Label:13C(6)15N(4)" [] OTHER -> ""
PsiNames == {"O-phospho-L-serine"}
PsiAcc(acc) == IF acc = "00046" THEN "O-phospho-L-serine" ELSE ""
XlNames == {"DSS"}
XlAcc(acc) == IF acc = "02001" THEN "DSS" ELSE ""

(* monosaccharide residues *)
Sugar(name) ==
    CASE name = "Hex" -> Cmp(<<"C", 6, "H", 10, "O", 5>>)
      [] name = "HexNAc" -> Cmp(<<"C", 8, "H", 13, "N", 1, "O", 5>>)
      [] name \in {"dHex", "Fuc"} -> Cmp(<<"C", 6, "H", 10, "O", 4>>)
      [] name = "NeuAc" -> Cmp(<<"C", 11, "H", 17, "N", 1, "O", 8>>)
      [] name = "NeuGc" -> Cmp(<<"C", 11, "H", 17, "N", 1, "O", 9>>)
      [] name = "Pent" -> Cmp(<<"C", 5, "H", 8, "O", 4>>)
      [] name = "HexA" -> Cmp(<<"C", 6, "H", 8, "O", 6>>)
      [] name = "HexN" -> Cmp(<<"C", 6, "H", 11, "N", 1, "O", 4>>)
SugarNames == <<"HexNAc", "HexA", "HexN", "Hex", "dHex", "Fuc", "NeuAc", "NeuGc", "Pent">>   \* longest first where prefixes clash

StartsWith(t, i, w) == i + Len(w) - 1 <= Len(t) /\ SubSeq(t, i, i + Len(w) - 1) = w

(* glycan text: (Name count?)* with names from SugarNames, longest match first *)
RECURSIVE GlycanFrom(_, _, _, _)
GlycanFrom(t, i, acc, units) ==
    IF i > Len(t) THEN <<TRUE, acc, units>>
    ELSE LET cands == SelectSeq(SugarNames, LAMBDA w : StartsWith(t, i, w)) IN
         IF cands = <<>> THEN <<FALSE, acc, units>>
         ELSE LET w == cands[1]
                  c0 == i + Len(w)
                  c1 == SkipWhile(t, c0, Digits)
                  k == IF c1 = c0 THEN 1 ELSE DigitsVal(t, c0, c1 - 1, 0) IN
              GlycanFrom(t, c1, CAdd(acc, CScale(Sugar(w), k)), units + k)
GlycanComp(t) == GlycanFrom(t, 1, EmptyComp, 0)

(* ------------------------- one alternative ----------------------------- *)
Lower(t) == LET up == "ABCDEFGHIJKLMNOPQRSTUVWXYZ"  lo == "abcdefghijklmnopqrstuvwxyz"
                LowC(c) == IF c \in Uppers THEN SubSeq(lo, CHOOSE k \in 1..26 : SubSeq(up, k, k) = c, CHOOSE k \in 1..26 : SubSeq(up, k, k) = c) ELSE c
            IN  FoldLeft(LAMBDA acc, k : acc \o LowC(SubSeq(t, k, k)), "", [ k \in 1..Len(t) |-> k ])

IndexOf(t, c) == LET S == { i \in 1..Len(t) : At(t, i) = c } IN IF S = {} THEN 0 ELSE CHOOSE i \in S : \A j \in S : i <= j
After(t, i) == SubSeq(t, i + 1, Len(t))
Before(t, i) == SubSeq(t, 1, i - 1)

PrefixOf(t) == LET c == IndexOf(t, ":") IN IF c = 0 THEN "" ELSE Lower(Before(t, c))
BodyOf(t)   == LET c == IndexOf(t, ":") IN IF c = 0 THEN t ELSE After(t, c)

(* text of one alternative, localisation tag already removed *)
SemAlt(t) ==
    IF IsDecimalText(t) THEN SemDelta(DecimalFix(t))
    ELSE LET p == PrefixOf(t)  b == BodyOf(t) IN
    CASE p = "formula" -> LET r == ParseFormula(b) IN IF r[1] /\ b # "" THEN SemComp(r[2]) ELSE Unres      \* "Formula:" spells nothing
      [] p = "glycan" -> LET r == GlycanComp(b) IN IF r[1] /\ b # "" THEN [SemComp(r[2]) EXCEPT !.sugars = r[3]] ELSE Unres
      [] p = "obs" -> IF IsDecimalText(b) THEN SemDelta(DecimalFix(b)) ELSE Unres
      [] p = "info" -> Unres
      [] p \in {"u", "unimod"} ->
            IF IsDecimalText(b) /\ At(b, 1) \in {"+", "-"} THEN SemDelta(DecimalFix(b))
            ELSE IF b \in UnimodNames THEN Tab(NameComp(b))
            ELSE IF UnimodAcc(b) # "" THEN Tab(NameComp(UnimodAcc(b))) ELSE Unres
      [] p \in {"m", "mod", "psi-mod"} ->
            IF IsDecimalText(b) /\ At(b, 1) \in {"+", "-"} THEN SemDelta(DecimalFix(b))
            ELSE IF b \in PsiNames THEN Tab(NameComp(b))
            ELSE IF PsiAcc(b) # "" THEN Tab(NameComp(PsiAcc(b))) ELSE Unres
      [] p \in {"x", "xlmod"} ->
            IF IsDecimalText(b) /\ At(b, 1) \in {"+", "-"} THEN SemDelta(DecimalFix(b))
            ELSE IF b \in XlNames THEN Tab(NameComp(b))
            ELSE IF XlAcc(b) # "" THEN Tab(NameComp(XlAcc(b))) ELSE Unres
      [] p \in {"r", "resid", "g", "gno"} ->      \* vocabularies not bundled: only their prefixed signed numbers mean something
            IF IsDecimalText(b) /\ At(b, 1) \in {"+", "-"} THEN SemDelta(DecimalFix(b)) ELSE Unres
      [] OTHER -> (* bare name: Unimod first, then PSI-MOD (names containing ':' such as Label:13C(6) are bare names) *)
            IF t \in UnimodNames \cup PsiNames THEN Tab(NameComp(t)) ELSE Unres

StripTag(t) == LET h == IndexOf(t, "#") IN IF h = 0 THEN t ELSE Before(t, h)

RECURSIVE SplitBar(_)
SplitBar(t) == LET b == IndexOf(t, "|") IN IF b = 0 THEN <<t>> ELSE <<Before(t, b)>> \o SplitBar(After(t, b))

(* meaning of a whole bracket value (tagged "i:", "f:", "s:") *)
Sem(v) ==
    LET tag == SubSeq(v, 1, 1)  body == SubSeq(v, 3, Len(v)) IN
    IF tag \in {"i", "f"} THEN SemDelta(DecimalFix(body))
    ELSE LET alts == SplitBar(body)
             sems == [ k \in 1..Len(alts) |->
                         IF At(alts[k], 1) = "#" THEN SemDelta(FZero) ELSE SemAlt(StripTag(alts[k])) ]
             good == SelectSeq(sems, LAMBDA s : s.ok) IN
         IF good = <<>> THEN Unres ELSE good[1]

(* the reading of the composition calculator (recorded deviation C03_AlternativePrecedence): the first alternative *)
(* that carries a composition wins over an earlier numeric alternative                                             *)
SemPref(v) ==
    LET tag == SubSeq(v, 1, 1)  body == SubSeq(v, 3, Len(v)) IN
    IF tag \in {"i", "f"} THEN Sem(v)
    ELSE LET alts == SplitBar(body)
             sems == [ k \in 1..Len(alts) |-> IF At(alts[k], 1) = "#" THEN Unres ELSE SemAlt(StripTag(alts[k])) ]
             withComp == SelectSeq(sems, LAMBDA s : s.ok /\ s.comp # EmptyComp) IN
         IF withComp = <<>> THEN Sem(v) ELSE withComp[1]

(* a modification with its multiplier *)
SemMod(m) == LET s == Sem(m.v) IN
             IF ~s.ok THEN Unres ELSE [ok |-> TRUE, comp |-> CScale(s.comp, m.m), delta |-> FMulInt(s.delta, m.m),
                                       sugars |-> s.sugars * m.m]

SemSum(mods) ==
    LET ss == [ k \in 1..Len(mods) |-> SemMod(mods[k]) ] IN
    [ok |-> \A k \in 1..Len(ss) : ss[k].ok,
     comp |-> CSum([ k \in 1..Len(ss) |-> ss[k].comp ]),
     delta |-> FSum([ k \in 1..Len(ss) |-> ss[k].delta ]),
     sugars |-> FoldLeft(LAMBDA acc, x : acc + x.sugars, 0, ss)]

SemMass(s, mono) == FAdd(CompMass(s.comp, mono), s.delta)
SemAdd(a, b) == [ok |-> a.ok /\ b.ok, comp |-> CAdd(a.comp, b.comp), delta |-> FAdd(a.delta, b.delta),
                 sugars |-> a.sugars + b.sugars]
SemZero == [ok |-> TRUE, comp |-> EmptyComp, delta |-> FZero, sugars |-> 0]
SemScale(a, k) == [ok |-> a.ok, comp |-> CScale(a.comp, k), delta |-> FMulInt(a.delta, k), sugars |-> a.sugars * k]
==============================================================================
