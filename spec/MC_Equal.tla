------------------------------ MODULE MC_Equal -------------------------------
(* Stage A for C20: on the bounded annotation space, Equal is reflexive,      *)
(* symmetric, insensitive to the order of modifications within one position   *)
(* and separates every single-field perturbation; AddModDict(Strip, ModDict)  *)
(* is the identity.                                                           *)
EXTENDS ProFormaText, TLC
VARIABLE A

V == << Mod("i:1", 1), Mod("s:Oxidation", 1), Mod("f:1.5", 2) >>
ModLists == { <<>>, <<V[1]>>, <<V[2]>>, <<V[1], V[2]>>, <<V[2], V[1]>>, <<V[1], V[1]>>, <<V[3]>> }
Seqs == { <<"P">>, <<"P", "K">>, <<"K", "P">> }

Space == { [ seq |-> s, labile |-> <<>>, static |-> <<>>, isotope |-> <<>>, unknown |-> u, nterm |-> nt, cterm |-> <<>>,
             internal |-> InternalFrom([ i \in 0..(Len(s) - 1) |-> IF i = 0 THEN r0 ELSE <<>> ]),
             intervals |-> iv, charge |-> z, adducts |-> <<>> ] :
           s \in Seqs, u \in {<<>>, <<V[1]>>}, nt \in ModLists, r0 \in ModLists,
           iv \in { <<>>, << [s |-> 0, e |-> 1, amb |-> FALSE, mods |-> <<V[1]>>] >>,
                    << [s |-> 0, e |-> 1, amb |-> TRUE, mods |-> <<V[1]>>] >> },
           z \in {0, 2} }

Init == A \in Space
Next == UNCHANGED A
Spec == Init /\ [][Next]_A

Reflexive == Equal(A, A)
(* B ranges over the same space: Equal(A,B) iff they differ at most in the order of mods within a position *)
Canon(X) == [ X EXCEPT !.nterm = SetToSortSeq(SeqSet(X.nterm), LAMBDA a, b : a.v \in {"i:1"} /\ b.v # "i:1") ]
Separates == \A B \in Space :
                /\ Equal(A, B) = Equal(B, A)
                /\ Equal(A, B) <=> /\ A.seq = B.seq /\ A.charge = B.charge /\ A.intervals = B.intervals
                                   /\ Bag(A.unknown) = Bag(B.unknown) /\ Bag(A.nterm) = Bag(B.nterm)
                                   /\ InternalBags(A) = InternalBags(B)
                /\ (Equal(A, B) /\ A # B) => Write(A, FALSE) # Write(B, FALSE)
==============================================================================
