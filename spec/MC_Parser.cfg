SPECIFICATION Spec
CONSTANT MaxTok = 3
PROPERTY Progress
INVARIANT InBounds
INVARIANT AcceptedIsWellFormed
CHECK_DEADLOCK FALSE
