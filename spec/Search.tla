------------------------------- MODULE Search --------------------------------
(* Reference layer for C16: subsequence search, coverage, containment.        *)
EXTENDS Annotation

(* offsets (0-based) at which query Q occurs in target T *)
Occurrences(Q, T, ignoreMods) ==
    LET nq == NRes(Q)  nt == NRes(T) IN
    IF nq = 0 \/ nt = 0 THEN {}
    ELSE { s \in 0..(nt - nq) :
             /\ SubSeq(T.seq, s + 1, s + nq) = Q.seq
             /\ (ignoreMods \/ Equal(Slice(T, s, s + nq), Q)) }

(* coverage array of T by a list of queries: position p (1-based) counts the occurrences containing it *)
CoverCount(T, subs, ignoreMods, p) ==
    LET per == [ q \in 1..Len(subs) |->
                   Cardinality({ s \in Occurrences(subs[q], T, ignoreMods) : s < p /\ p <= s + NRes(subs[q]) }) ]
    IN  FoldLeft(LAMBDA acc, x : acc + x, 0, per)

Coverage(T, subs, accumulate, ignoreMods) ==
    [ p \in 1..NRes(T) |-> LET c == CoverCount(T, subs, ignoreMods, p) IN
                           IF accumulate THEN c ELSE (IF c > 0 THEN 1 ELSE 0) ]

Marked(T, subs, ignoreMods) == Cardinality({ p \in 1..NRes(T) : CoverCount(T, subs, ignoreMods, p) > 0 })

(* bag inclusion of modified residues *)
BagIncluded(b1, b2) == \A x \in DOMAIN b1 : x \in DOMAIN b2 /\ b1[x] <= b2[x]
UnorderedContained(Q, T) == BagIncluded(ResidueBag(Q), ResidueBag(T))
==============================================================================
